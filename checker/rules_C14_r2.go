package main

import (
	"regexp"
	"strings"

	"golang.org/x/tools/go/ssa"
)

// Round-2 C14 rules.

func rulesC14Round2(c *Ctx) {
	// ---- voting power: the "zero gets one free unit" test is applied to the value that is converted
	// An elected validator must never be handed to CometBFT with power 0 (that is a removal). VotingPowerFromStake scales
	// a clone of the stake in place and then tests it for zero before converting it: the object tested by IsZero must be
	// the object converted by ToBigInt, the test must dominate the conversion, and no in-place operation on that object
	// may lie between the two.
	if fn := c.needFn("C14.power", "scheduler/api.VotingPowerFromStake"); fn != nil {
		c.Analysed[fname(fn)] = true
		var conv, zero []ssa.CallInstruction
		var muts []ssa.Instruction
		for _, call := range callsIn(fn) {
			switch calleeName(call) {
			case "common/quantity.(*Quantity).ToBigInt":
				conv = append(conv, call)
			case "common/quantity.(*Quantity).IsZero":
				zero = append(zero, call)
			case "common/quantity.(*Quantity).Quo", "common/quantity.(*Quantity).Sub", "common/quantity.(*Quantity).SubUpTo", "common/quantity.(*Quantity).Mul", "common/quantity.(*Quantity).Add", "common/quantity.(*Quantity).FromBigInt", "common/quantity.(*Quantity).FromUint64", "common/quantity.(*Quantity).FromInt64":
				muts = append(muts, call)
			}
		}
		inst := fname(fn) + ":the value tested for zero is the value converted to voting power"
		ok := len(conv) == 1 && len(zero) >= 1
		why := ""
		if ok {
			cv := recvOf(conv[0])
			var z ssa.CallInstruction
			for _, zc := range zero {
				if sameValue(recvOf(zc), cv, 0) {
					z = zc
				}
			}
			switch {
			case z == nil:
				ok, why = false, "no IsZero test on the quantity that is converted (the test is on another object, e.g. the unscaled stake)"
			default:
				// the not-zero edge dominates the conversion
				es, found := BoolEdges(z, 0, false)
				if !found || Reach(fn, nil, nil, isInstr(conv[0]), NewCut().AddEdges(es...)) != nil {
					ok, why = false, "the conversion is reachable without passing the not-zero edge of the test"
				}
				// no in-place operation on the converted object after the test
				for _, m := range muts {
					if mc, isCall := m.(ssa.CallInstruction); isCall && sameValue(recvOf(mc), cv, 0) && Reach(fn, z, nil, isInstr(m), nil) != nil {
						ok, why = false, "an in-place operation on the quantity follows the zero test"
					}
				}
			}
		} else {
			why = "conversion (ToBigInt) or zero test (IsZero) not found"
		}
		site := c.P.Pos(fn.Pos())
		if len(conv) > 0 {
			site = c.P.InstrPos(conv[0])
		}
		c.Check(ok, "C14.power", inst, site, "IsZero is applied to the scaled quantity itself, dominates its conversion, and nothing modifies it in between", "VotingPowerFromStake can return power 0 for a non-zero stake ("+why+"): a stake below one voting-power unit is scaled to zero after the test; the validator is elected with power 0, which CometBFT reads as a removal — voting power is not monotone in stake and the tracked set is not the elected one")
	}

	// ---- an entity counts as a validator entity only with an elected node
	// validatorEntities feeds the runtimes' ValidatorSet constraint, rewardableEntities the rewards: both may be marked
	// for an entity only in an iteration that also inserts one of its nodes into the new validator set.
	if fn := c.needFn("C14.entities", "consensus/cometbft/apps/scheduler.electValidators"); fn != nil {
		c.Analysed[fname(fn)] = true
		var inserts []ssa.Instruction
		marks := map[string][]ssa.Instruction{}
		for _, b := range blocksIP(fn) {
			for _, in := range b.Instrs {
				mu, ok := in.(*ssa.MapUpdate)
				if !ok {
					continue
				}
				mt := typeStr(mu.Map.Type())
				switch {
				case strings.Contains(mt, "scheduler/api.Validator"):
					inserts = append(inserts, in)
				case vstr(mu.Map) == "param:rewardableEntities":
					marks["rewardableEntities"] = append(marks["rewardableEntities"], in)
				case strings.HasPrefix(mt, "map[staking/api.Address]struct{}") && strings.Contains(vstr(mu.Key), "stakingAddressMapToSliceByStake("):
					marks["validatorEntities"] = append(marks["validatorEntities"], in)
				}
			}
		}
		succ := SuccessReturns(fn)
		for _, name := range []string{"rewardableEntities", "validatorEntities"} {
			inst := fname(fn) + ":" + name + "[entity] only with an elected node of the entity"
			ms := marks[name]
			if len(ms) == 0 || len(inserts) == 0 {
				c.Fail("C14.entities", inst, c.P.Pos(fn.Pos()), "the marking of "+name+" or the insertion into the new validator set was not found in electValidators")
				continue
			}
			ok := true
			var at ssa.Instruction
			for _, m := range ms {
				// from the mark, the next mark (another entity) or a success return must not be reachable without an insertion
				targets := append(append([]ssa.Instruction{}, succ...), m)
				if hit := Reach(fn, m, nil, anyOf(targets), NewCut().AddInstr(inserts...)); hit != nil {
					ok, at = false, m
				}
			}
			site := c.P.InstrPos(ms[0])
			if at != nil {
				site = c.P.InstrPos(at)
			}
			c.Check(ok, "C14.entities", inst, site, "every path from the mark to the next entity or to the success return inserts a validator", "an entity can be recorded in "+name+" without any of its nodes being inserted into the validator set (e.g. all its nodes were dropped for a missing VRF proof): its compute nodes then satisfy a runtime's ValidatorSet constraint (or it is rewarded) although it has no validator")
		}
	}

	// ---- every election pass replaces or drops every committee
	if fn := c.needFn("C14.drop", "consensus/cometbft/apps/scheduler.(*Application).electCommittees"); fn != nil {
		c.Analysed[fname(fn)] = true
		fetch := CallsTo(fn, "fetchRuntimes", "consensus/cometbft/apps/scheduler.fetchRuntimes", "")
		succ := Ev{Name: "success return", Fn: fn, Ins: SuccessReturns(fn)}
		c.MustPrecede("C14.drop", fn, fetch, succ, "no election pass may finish successfully without visiting the runtimes: a committee that is neither re-elected nor dropped survives with members that may since have been frozen or expired")
	}
	if fn := c.needFn("C14.drop", "consensus/cometbft/apps/scheduler.electCommittee"); fn != nil {
		c.Analysed[fname(fn)] = true
		put := union("PutCommittee/DropCommittee", CallsTo(fn, "", "consensus/cometbft/apps/scheduler/state.(*MutableState).PutCommittee", ""), CallsTo(fn, "", "consensus/cometbft/apps/scheduler/state.(*MutableState).DropCommittee", ""))
		inst := fname(fn) + ":every success exit has stored or dropped the committee"
		hit := Reach(fn, nil, nil, anyOf(SuccessReturns(fn)), NewCut().AddInstr(put.Ins...))
		site := c.P.Pos(fn.Pos())
		if hit != nil {
			site = c.P.InstrPos(hit)
		}
		c.Check(!put.Empty() && hit == nil, "C14.drop", inst, site, "every success exit passes PutCommittee or DropCommittee", "electCommittee can return success without storing a new committee or dropping the old one: a committee elected under earlier rules stays in the scheduler state with a stale ValidFor and members that are never re-checked")
	}

	// ---- limits that the genesis must satisfy are also required of parameter changes (F25)
	if fn := c.needFn("C14.limits", "scheduler/api.(*ConsensusParameterChanges).SanityCheck"); fn != nil {
		c.Analysed[fname(fn)] = true
		for _, f := range []string{"MinValidators", "MaxValidators"} {
			re := regexp.MustCompile(`^\*\*param:c\.` + f + ` <= 0$`)
			found := false
			for _, b := range fn.Blocks {
				ifi := lastIfOf(b)
				if ifi == nil {
					continue
				}
				if re.MatchString(normCond(ifi.Cond, true)) {
					// the true edge leads to an error return only
					if Reach(fn, nil, []Edge{{b, 0}}, anyOf(SuccessReturns(fn)), nil) == nil {
						found = true
					}
				}
			}
			c.Check(found, "C14.limits", fname(fn)+":"+f+" <= 0 is rejected", c.P.Pos(fn.Pos()), "a parameter change setting "+f+" to zero or below is rejected, as InitChain rejects it for the genesis", "a governance parameter change can set "+f+" to zero or below (InitChain rejects that for the genesis): with MaxValidators <= 0 the election still elects one validator, above the configured limit")
		}
	}
}

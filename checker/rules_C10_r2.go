package main

import (
	"go/token"
	"go/types"
	"strings"

	"golang.org/x/tools/go/ssa"
)

// Round-2 C10 rules.

// c10UsubScope: packages whose arithmetic runs during block execution.
func c10UsubScope(pp string) bool {
	if strings.HasPrefix(pp, "consensus/cometbft/apps/") || pp == "consensus/cometbft/abci" {
		return true
	}
	for _, x := range []string{"staking/api", "registry/api", "roothash/api", "scheduler/api", "governance/api", "beacon/api", "keymanager/", "vault/api", "common/quantity", "common/node", "consensus/api/transaction"} {
		if strings.HasPrefix(pp, x) {
			return true
		}
	}
	return false
}

func rulesC10Round2(c *Ctx, ix *Index) {
	// ---- unsigned subtraction cannot wrap
	// A wrapped unsigned difference is a huge count: it makes gas multipliers negative after conversion (UseGas panics),
	// loops run for ever or fees explode — block content that halts or derails execution. Every subtraction of two
	// unsigned values in the packages that run during block execution must be dominated by the matching comparison of
	// the same two values (or subtract from the type's maximum, or subtract a constant under a sufficient lower bound),
	// or be a reviewed row.
	n := 0
	for _, f := range c.P.ModFuncs {
		if f.Blocks == nil || !c10UsubScope(short(fpkgPath(f))) || (f.Origin() != nil && f.Origin() != f) {
			continue
		}
		seen := map[string]int{}
		for _, b := range f.Blocks {
			for _, in := range b.Instrs {
				bo, ok := in.(*ssa.BinOp)
				if !ok || bo.Op != token.SUB {
					continue
				}
				bt, ok := bo.Type().Underlying().(*types.Basic)
				if !ok || bt.Info()&types.IsUnsigned == 0 {
					continue
				}
				if _, xk := bo.X.(*ssa.Const); xk {
					if _, yk := bo.Y.(*ssa.Const); yk {
						continue
					}
				}
				n++
				c.Analysed[fname(f)] = true
				key := fname(f) + " " + vstrShort(bo.X) + " - " + vstrShort(bo.Y)
				seen[key]++
				if seen[key] > 1 {
					key += " #" + itoa(seen[key])
				}
				if usubGuarded(bo) {
					c.OK("C10.usub", key, c.P.InstrPos(in), "dominated by the matching comparison of the same values")
					continue
				}
				if reason, ok := c.Tabled("c10_usub", key); ok {
					c.TabledOK("C10.usub", key, c.P.InstrPos(in), reason)
					continue
				}
				c.Fail("C10.usub", key, c.P.InstrPos(in), "unsigned subtraction without a dominating comparison of the same two values: when the subtrahend is larger the difference wraps around to a huge value (e.g. a shortened re-registration makes the maintenance-fee multiplier negative after conversion and UseGas panics while the block is executed)")
			}
		}
	}
	c.Floor("C10.usub", n, 15, "unsigned subtractions in the block-execution packages")

	// ---- the round-timeout queue mirrors RuntimeState.NextTimeout
	// processRoundTimeouts treats a queue entry for a runtime that has no open round (suspended) as a fatal EndBlock
	// error. The queue is kept in step with NextTimeout by rearmRoundTimeout(prev, next): every store to NextTimeout in
	// the roothash application is followed, on every success path, by that call.
	nT := 0
	for _, f := range c.P.FuncsInPkg("consensus/cometbft/apps/roothash") {
		stores := StoresTo(f, "rtState.NextTimeout=", "roothash/api.RuntimeState.NextTimeout")
		if stores.Empty() {
			continue
		}
		c.Analysed[fname(f)] = true
		rearm := CallsTo(f, "rearmRoundTimeout", "consensus/cometbft/apps/roothash.rearmRoundTimeout", "")
		for _, st := range stores.Ins {
			if fa, ok := st.(*ssa.Store).Addr.(*ssa.FieldAddr); ok {
				if _, fresh := fa.X.(*ssa.Alloc); fresh {
					continue // field of a freshly built state (a new runtime has no queue entry yet)
				}
			}
			nT++
			inst := fname(f) + ":NextTimeout=⇒rearmRoundTimeout"
			hit := Reach(f, st, nil, anyOf(SuccessReturns(f)), NewCut().AddInstr(rearm.Ins...))
			// a tail call `return rearmRoundTimeout(...)` is itself the exit
			c.Check(!rearm.Empty() && hit == nil, "C10.timeout", inst, c.P.InstrPos(st), "every success path after the store passes rearmRoundTimeout", "RuntimeState.NextTimeout is changed on a path that does not re-arm the round-timeout queue: a stale queue entry survives (e.g. across a suspension) and when its height is reached processRoundTimeouts fails — a fatal EndBlock error")
		}
	}
	c.Floor("C10.timeout", nT, 3, "stores to RuntimeState.NextTimeout in the roothash application")

	// ---- a deposit into a share pool on the fatal cone cannot meet a pool with shares but no balance (F27)
	// SharePool.Deposit fails (ErrInvalidArgument) for a pool that has shares but no balance — the state a pool is in
	// after it lost everything through slashing. In staking/state (reached from BeginBlock/EndBlock and from round
	// finalization, where an error stops block execution) every Deposit must be dominated by "the pool has no shares"
	// or "the pool's balance is not zero" for the very pool it deposits into, or be a reviewed row.
	nDep := 0
	for _, f := range c.P.FuncsInPkg("consensus/cometbft/apps/staking/state") {
		deps := CallsTo(f, "Deposit", "staking/api.(*SharePool).Deposit", "")
		for i, d := range deps.Calls() {
			nDep++
			c.Analysed[fname(f)] = true
			pool := recvOf(d)
			key := fname(f) + ":Deposit#" + itoa(i+1) + " into a pool that can issue shares"
			cut := NewCut()
			nG := 0
			// field of the pool the value is (an address of / a clone of)
			poolField := func(v ssa.Value) (string, bool) {
				clone := false
				if call, ok := v.(*ssa.Call); ok && calleeName(call) == "common/quantity.(*Quantity).Clone" {
					clone = true
					v = call.Call.Args[0]
				}
				fa, ok := v.(*ssa.FieldAddr)
				if !ok || !sameValue(fa.X, pool, 0) {
					return "", false
				}
				return fieldName(fa.X.Type(), fa.Field), clone
			}
			for _, b := range f.Blocks {
				ifi := lastIfOf(b)
				if ifi == nil {
					continue
				}
				cond, pol := stripNot(ifi.Cond, true)
				call, ok := cond.(*ssa.Call)
				if !ok || calleeName(call) != "common/quantity.(*Quantity).IsZero" {
					continue
				}
				arg := call.Call.Args[0]
				fld, clone := poolField(arg)
				// edge index on which IsZero(...) is true / false
				trueEdge, falseEdge := 0, 1
				if !pol {
					trueEdge, falseEdge = 1, 0
				}
				switch {
				case fld == "TotalShares" && !clone:
					cut.AddEdges(Edge{b, trueEdge})
					nG++
				case fld == "Balance" && !clone:
					cut.AddEdges(Edge{b, falseEdge})
					nG++
				case fld == "Balance" && clone:
					// a reward computed from the pool's balance by multiplications and divisions only is zero when the
					// balance is zero: leaving on "reward is zero" is a guard as well
					onlyScaled := true
					for _, c2 := range callsIn(f) {
						if r := recvOf(c2); r != nil && r == arg {
							switch calleeShort(c2) {
							case "Mul", "Quo", "IsZero", "Cmp", "Clone", "String":
							default:
								onlyScaled = false
							}
						}
					}
					if onlyScaled {
						cut.AddEdges(Edge{b, falseEdge})
						nG++
					}
				}
			}
			if nG > 0 && Reach(f, nil, nil, isInstr(d), cut) == nil {
				c.OK("C10.deposit", key, c.P.InstrPos(d), "every path to the deposit has seen the pool without shares or with a non-zero balance")
				continue
			}
			if reason, ok := c.Tabled("c10_deposit", fname(f)+" Deposit#"+itoa(i+1)); ok {
				c.TabledOK("C10.deposit", key, c.P.InstrPos(d), reason)
				continue
			}
			c.Fail("C10.deposit", key, c.P.InstrPos(d), "a deposit into a share pool is reachable while the pool may have shares but no balance (everything lost through slashing): SharePool.Deposit then fails with ErrInvalidArgument, and on this path (block rewards, rewards for discrepancy resolvers during round finalization) the error stops block execution")
		}
	}
	c.Floor("C10.deposit", nDep, 3, "SharePool.Deposit calls in staking/state")

	// ---- support for the reviewed row of the debonding pay-out (moves.tsv): record shares are merged in one place
	// onEpochChange's Debonding.Withdraw cannot fail only if a debonding record never holds more shares than were added
	// to the debonding pool for it. Records with the same end epoch are merged by SetDebondingDelegation; a second merge
	// by a caller counts the earlier reclaim twice.
	c.WhoMayCall(ix, "C10.support", "staking/api.(*DebondingDelegation).Merge", []string{"consensus/cometbft/apps/staking/state.(*MutableState).SetDebondingDelegation"}, "debonding delegations with the same end epoch are merged only by the state setter (a second merge double-counts shares and the pay-out at the end epoch fails EndBlock)")
}

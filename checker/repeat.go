package main

import (
	"sort"
	"strings"

	"golang.org/x/tools/go/ssa"
)

// badgerKeyFormatsOf traces a key value back to the key formats it can have been
// encoded with: a direct KeyFormat.Encode on a package-level format, the key
// of an item of an iterator whose options carry an encoded Prefix, or the
// result of a same-module helper that returns one of those.
func badgerKeyFormatsOf(v ssa.Value, depth int, seen map[ssa.Value]bool, out map[string]bool) {
	if v == nil || seen[v] || depth > 4 {
		return
	}
	seen[v] = true
	switch x := v.(type) {
	case *ssa.Phi:
		for _, e := range x.Edges {
			badgerKeyFormatsOf(e, depth, seen, out)
		}
	case *ssa.ChangeType:
		badgerKeyFormatsOf(x.X, depth, seen, out)
	case *ssa.Convert:
		badgerKeyFormatsOf(x.X, depth, seen, out)
	case *ssa.Slice:
		badgerKeyFormatsOf(x.X, depth, seen, out)
	case *ssa.Extract:
		badgerKeyFormatsOf(x.Tuple, depth, seen, out)
	case *ssa.UnOp:
		switch a := x.X.(type) {
		case *ssa.Alloc:
			storesInto(a, func(val ssa.Value) { badgerKeyFormatsOf(val, depth, seen, out) })
		case *ssa.IndexAddr:
			// an element of a slice of keys collected earlier
			badgerKeyFormatsOf(a.X, depth, seen, out)
		case *ssa.FieldAddr:
			// a field of a local struct (iterator options)
			if al, ok := a.X.(*ssa.Alloc); ok && al.Referrers() != nil {
				for _, r := range *al.Referrers() {
					if fa, ok := r.(*ssa.FieldAddr); ok && fa.Field == a.Field && fa.Referrers() != nil {
						for _, s := range *fa.Referrers() {
							if st, ok := s.(*ssa.Store); ok && st.Addr == fa {
								badgerKeyFormatsOf(st.Val, depth, seen, out)
							}
						}
					}
				}
			}
		}
	case *ssa.Alloc:
		// a struct passed by value: any encoded field
		if x.Referrers() != nil {
			for _, r := range *x.Referrers() {
				if fa, ok := r.(*ssa.FieldAddr); ok && fa.Referrers() != nil {
					for _, s := range *fa.Referrers() {
						if st, ok := s.(*ssa.Store); ok && st.Addr == fa {
							badgerKeyFormatsOf(st.Val, depth, seen, out)
						}
					}
				}
			}
		}
	case *ssa.Call:
		nm := calleeName(x)
		a := allArgs(x)
		switch {
		case nm == "builtin.append":
			badgerKeyFormatsOf(a[0], depth, seen, out)
			if len(a) > 1 {
				for _, el := range variadicElems(a[1]) {
					badgerKeyFormatsOf(el, depth, seen, out)
				}
			}
		case nm == "common/keyformat.(*KeyFormat).Encode":
			if ld, ok := a[0].(*ssa.UnOp); ok {
				if g, ok := ld.X.(*ssa.Global); ok {
					out[short(g.Pkg.Pkg.Path())+"."+g.Name()] = true
				}
			}
		case strings.HasPrefix(nm, "github.com/dgraph-io/badger/v4.(*Item).Key"), // Key, KeyCopy
			nm == "github.com/dgraph-io/badger/v4.(*Iterator).Item":
			badgerKeyFormatsOf(a[0], depth, seen, out)
		case nm == "github.com/dgraph-io/badger/v4.(*Txn).NewIterator":
			// options struct passed by value: a load of a local alloc
			if ld, ok := a[1].(*ssa.UnOp); ok {
				if al, ok := ld.X.(*ssa.Alloc); ok {
					badgerKeyFormatsOf(al, depth, seen, out)
				}
			}
		default:
			if f := x.Common().StaticCallee(); f != nil && f.Blocks != nil && inModule(fpkgPath(f)) {
				for _, b := range f.Blocks {
					if r, ok := b.Instrs[len(b.Instrs)-1].(*ssa.Return); ok {
						for _, rv := range r.Results {
							badgerKeyFormatsOf(rv, depth+1, seen, out)
						}
					}
				}
			}
		}
	}
}

func storesInto(a *ssa.Alloc, f func(ssa.Value)) {
	if a.Referrers() == nil {
		return
	}
	for _, r := range *a.Referrers() {
		if st, ok := r.(*ssa.Store); ok && st.Addr == a {
			f(st.Val)
		}
	}
}

func withClosures(fn *ssa.Function) []*ssa.Function {
	out := []*ssa.Function{fn}
	for _, a := range fn.AnonFuncs {
		out = append(out, withClosures(a)...)
	}
	return out
}

func sortedKeys(m map[string]bool) []string {
	var out []string
	for k := range m {
		out = append(out, k)
	}
	sort.Strings(out)
	return out
}

// freeVarSource: a closure's free variable → the value bound to it where the
// closure is made (loads of the captured cell are followed by the callers).
func isBadgerDelete(nm string) bool {
	return nm == "github.com/dgraph-io/badger/v4.(*WriteBatch).Delete" ||
		nm == "github.com/dgraph-io/badger/v4.(*WriteBatch).DeleteAt" ||
		nm == "github.com/dgraph-io/badger/v4.(*Txn).Delete"
}

// mustExistReads lists, for a function, the (*Txn).Get calls and the formats
// of the keys they look up.
type keyRead struct {
	Call ssa.CallInstruction
	Fmts []string
}

func keyReadsIn(fn *ssa.Function) []keyRead {
	var out []keyRead
	for _, call := range callsIn(fn) {
		if calleeName(call) != "github.com/dgraph-io/badger/v4.(*Txn).Get" {
			continue
		}
		fm := map[string]bool{}
		badgerKeyFormatsOf(allArgs(call)[1], 0, map[ssa.Value]bool{}, fm)
		out = append(out, keyRead{call, sortedKeys(fm)})
	}
	return out
}

// errSentinelsReturned: module-level error variables (Err…) that fn loads and
// returns.
func errSentinelsReturned(fn *ssa.Function) []string {
	out := map[string]bool{}
	for _, b := range fn.Blocks {
		r, ok := b.Instrs[len(b.Instrs)-1].(*ssa.Return)
		if !ok {
			continue
		}
		for _, rv := range r.Results {
			var walk func(v ssa.Value, d int)
			seen := map[ssa.Value]bool{}
			walk = func(v ssa.Value, d int) {
				if v == nil || seen[v] || d > 6 {
					return
				}
				seen[v] = true
				v = unspill(v)
				switch x := v.(type) {
				case *ssa.Phi:
					for _, e := range x.Edges {
						walk(e, d+1)
					}
				case *ssa.MakeInterface:
					walk(x.X, d+1)
				case *ssa.ChangeInterface:
					walk(x.X, d+1)
				case *ssa.UnOp:
					if g, ok := x.X.(*ssa.Global); ok && strings.HasPrefix(g.Name(), "Err") {
						out[short(g.Pkg.Pkg.Path())+"."+g.Name()] = true
					}
				}
			}
			walk(rv, 0)
		}
	}
	return sortedKeys(out)
}

package main

import (
	"fmt"
	"os"
	"regexp"
	"sort"
	"strings"

	"golang.org/x/tools/go/ssa"
)

// Ev is a set of instructions in one function selected as an "event".
type Ev struct {
	Name string
	Fn   *ssa.Function
	Ins  []ssa.Instruction
}

func (e Ev) Empty() bool { return len(e.Ins) == 0 }

func (e Ev) Calls() []ssa.CallInstruction {
	var out []ssa.CallInstruction
	for _, i := range e.Ins {
		if c, ok := i.(ssa.CallInstruction); ok {
			out = append(out, c)
		}
	}
	return out
}

// rootStrs returns the canonical strings of the provenance roots of v.
func rootStrs(v ssa.Value) []string {
	var out []string
	for _, r := range Roots(v) {
		if r.Kind == "alloc" {
			continue
		}
		out = append(out, vstr(r.Val)+r.Path)
	}
	sort.Strings(out)
	return uniq(out)
}

// recvOf returns the receiver value of a method call (first arg for static
// method calls, the interface value for invokes), or nil.
func recvOf(c ssa.CallInstruction) ssa.Value {
	cc := c.Common()
	if cc.IsInvoke() {
		return cc.Value
	}
	if f := cc.StaticCallee(); f != nil && f.Signature.Recv() != nil && len(cc.Args) > 0 {
		return cc.Args[0]
	}
	return nil
}

// CallsTo selects calls in fn to callee (short qualified name) whose receiver
// provenance matches recvRe (matched against each root string joined by " | "
// and against vstr of the receiver). Empty recvRe matches any. Deferred calls
// are excluded unless includeDefer.
func CallsTo(fn *ssa.Function, name, callee, recvRe string) Ev {
	setIPContext(fn)
	ev := Ev{Name: name, Fn: fn}
	var re *regexp.Regexp
	if recvRe != "" {
		re = regexp.MustCompile(recvRe)
	}
	for _, c := range callsIn(fn) {
		if _, isDefer := c.(*ssa.Defer); isDefer {
			continue
		}
		if _, isGo := c.(*ssa.Go); isGo {
			continue
		}
		if calleeName(c) != callee {
			continue
		}
		if re != nil {
			r := recvOf(c)
			if r == nil {
				continue
			}
			s := vstr(r) + " || " + strings.Join(rootStrs(r), " | ")
			if !re.MatchString(s) {
				continue
			}
		}
		ev.Ins = append(ev.Ins, c)
	}
	return ev
}

// CallsArg selects calls to callee whose argument #k (0-based, receiver
// included for methods) matches re.
func CallsArg(fn *ssa.Function, name, callee string, k int, argRe string) Ev {
	setIPContext(fn)
	ev := Ev{Name: name, Fn: fn}
	re := regexp.MustCompile(argRe)
	for _, c := range callsIn(fn) {
		if _, isDefer := c.(*ssa.Defer); isDefer {
			continue
		}
		if calleeName(c) != callee {
			continue
		}
		args := allArgs(c)
		if k >= len(args) {
			continue
		}
		s := vstr(args[k]) + " || " + strings.Join(rootStrs(args[k]), " | ")
		if re.MatchString(s) {
			ev.Ins = append(ev.Ins, c)
		}
	}
	return ev
}

// StoresTo selects stores in fn to struct field "pkg.Type.Field".
func StoresTo(fn *ssa.Function, name, field string) Ev {
	ev := Ev{Name: name, Fn: fn}
	for _, b := range blocksIP(fn) {
		for _, in := range b.Instrs {
			if st, ok := in.(*ssa.Store); ok {
				if fa, ok := st.Addr.(*ssa.FieldAddr); ok && fieldKey(fa.X.Type(), fa.Field) == field {
					ev.Ins = append(ev.Ins, in)
				}
			}
		}
	}
	return ev
}

// successCut builds the cut that removes the success continuation of every
// call in A: the nil-error edges when the error is branched on. Calls whose
// error is not branched on contribute nothing to the cut (so that anything
// after them stays reachable and a MUST-PRECEDE(A✓,·) fails), except calls in
// tail position (their error is returned directly), which are cut themselves.
func successCut(A Ev) (*Cut, []string) {
	cut := NewCut()
	var notes []string
	for _, c := range A.Calls() {
		if es, ok := SuccessEdges(c); ok {
			cut.AddEdges(es...)
			continue
		}
		if len(errorReturnedDirectly(c)) > 0 {
			cut.AddInstr(c)
			continue
		}
		if errValues(c) == nil {
			// no error result: passing the call is the event
			cut.AddInstr(c)
			continue
		}
		notes = append(notes, "error result of "+A.Name+" is not checked")
	}
	return cut, notes
}

// MustPrecede: every path entry→B passes through A (through A's success edge
// when A returns an error).
func (c *Ctx) MustPrecede(rule string, fn *ssa.Function, A, B Ev, why string) bool {
	inst := fname(fn) + ":" + A.Name + "≺" + B.Name
	c.Analysed[fname(fn)] = true
	if B.Empty() {
		c.Fail(rule, inst, c.P.Pos(fn.Pos()), "event "+B.Name+" not found in "+fname(fn)+" (required: "+why+")")
		return false
	}
	if A.Empty() {
		c.Fail(rule, inst, c.P.Pos(fn.Pos()), "event "+A.Name+" not found in "+fname(fn)+" but must precede "+B.Name+": "+why)
		return false
	}
	cut, notes := successCut(A)
	ok := true
	for _, b := range B.Ins {
		if hit := Reach(fn, nil, nil, isInstr(b), cut); hit != nil {
			ok = false
			c.Fail(rule, inst, c.P.InstrPos(b), "path from entry of "+fname(fn)+" reaches "+B.Name+" without passing the success edge of "+A.Name+" ["+strings.Join(notes, "; ")+"]: "+why)
		}
	}
	if ok {
		c.OK(rule, inst, c.P.InstrPos(B.Ins[0]), "every path to "+B.Name+" passes "+A.Name+"✓")
	}
	return ok
}

// NeverAfter: no path from any B to any A.
func (c *Ctx) NeverAfter(rule string, fn *ssa.Function, A, B Ev, why string) bool {
	inst := fname(fn) + ":" + A.Name + "!after:" + B.Name
	c.Analysed[fname(fn)] = true
	if B.Empty() {
		c.Fail(rule, inst, c.P.Pos(fn.Pos()), "event "+B.Name+" not found in "+fname(fn)+": "+why)
		return false
	}
	ok := true
	for _, b := range B.Ins {
		if hit := Reach(fn, b, nil, anyOf(A.Ins), nil); hit != nil {
			ok = false
			c.Fail(rule, inst, c.P.InstrPos(hit), A.Name+" is reachable after "+B.Name+" in "+fname(fn)+": "+why)
		}
	}
	if ok {
		c.OK(rule, inst, c.P.InstrPos(B.Ins[0]), "no "+A.Name+" after "+B.Name)
	}
	return ok
}

// Separated: every path from an A to a B passes through the success edge of a C.
func (c *Ctx) Separated(rule string, fn *ssa.Function, A, B, C Ev, why string) bool {
	inst := fname(fn) + ":" + A.Name + "→" + C.Name + "→" + B.Name
	c.Analysed[fname(fn)] = true
	if A.Empty() || B.Empty() {
		c.Fail(rule, inst, c.P.Pos(fn.Pos()), "events "+A.Name+"/"+B.Name+" not found in "+fname(fn)+": "+why)
		return false
	}
	cut, notes := successCut(C)
	ok := true
	for _, a := range A.Ins {
		acut := cut.Clone()
		correlatedCut(a, acut)
		if hit := Reach(fn, a, nil, anyOf(B.Ins), acut); hit != nil {
			ok = false
			c.Fail(rule, inst, c.P.InstrPos(hit), "path from "+A.Name+" ("+c.P.InstrPos(a)+") reaches "+B.Name+" without "+C.Name+"✓ ["+strings.Join(notes, "; ")+"]: "+why)
			break
		}
	}
	if ok {
		c.OK(rule, inst, c.P.InstrPos(A.Ins[0]), "every path "+A.Name+"→"+B.Name+" passes "+C.Name+"✓")
	}
	return ok
}

// OnAllSuccessExits: every path from an A's success to a success return
// passes through the success edge of B.
func (c *Ctx) OnAllSuccessExits(rule string, fn *ssa.Function, A, B Ev, why string) bool {
	inst := fname(fn) + ":" + A.Name + "⇒" + B.Name
	c.Analysed[fname(fn)] = true
	if A.Empty() {
		c.Fail(rule, inst, c.P.Pos(fn.Pos()), "event "+A.Name+" not found in "+fname(fn)+": "+why)
		return false
	}
	cut, _ := successCut(B)
	for _, r := range Returns(fn) {
		cut.AddEdges(phiNonNilEdges(r)...)
	}
	succ := SuccessReturns(fn)
	ok := true
	for _, a := range A.Ins {
		var hit ssa.Instruction
		if ac, isCall := a.(ssa.CallInstruction); isCall {
			if es, found := SuccessEdges(ac); found {
				hit = Reach(fn, nil, es, anyOf(succ), cut)
			} else {
				hit = Reach(fn, a, nil, anyOf(succ), cut)
			}
		} else {
			hit = Reach(fn, a, nil, anyOf(succ), cut)
		}
		if hit != nil {
			ok = false
			c.Fail(rule, inst, c.P.InstrPos(hit), "success return reachable from "+A.Name+" ("+c.P.InstrPos(a)+") without "+B.Name+"✓: "+why)
		}
	}
	if ok {
		c.OK(rule, inst, c.P.InstrPos(A.Ins[0]), "every success exit after "+A.Name+" passes "+B.Name+"✓")
	}
	return ok
}

// SuccessRequires: every success return of fn passes through the given edges
// (e.g. the true side of a bool verifier).
func (c *Ctx) SuccessRequiresEdges(rule string, fn *ssa.Function, name string, edges []Edge, why string) bool {
	inst := fname(fn) + ":success⇒" + name
	c.Analysed[fname(fn)] = true
	if len(edges) == 0 {
		c.Fail(rule, inst, c.P.Pos(fn.Pos()), "guard "+name+" not found in "+fname(fn)+": "+why)
		return false
	}
	cut := NewCut().AddEdges(edges...)
	if os.Getenv("VERIF_DEBUG_EDGES") != "" && strings.Contains(name, os.Getenv("VERIF_DEBUG_EDGES")) {
		for _, e := range edges {
			iff := lastIf(e.From)
			fmt.Fprintln(os.Stderr, "EDGE", fname(e.From.Parent()), e.From.Index, e.Idx, normCond(iff.Cond, e.Idx == 0))
		}
	}
	for _, r := range Returns(fn) {
		cut.AddEdges(phiNonNilEdges(r)...)
	}
	if c.AssumeFalse != "" {
		cut.AddEdges(HeldEdges(fn, c.AssumeFalse)...)
	}
	if hit := Reach(fn, nil, nil, anyOf(SuccessReturns(fn)), cut); hit != nil {
		c.Fail(rule, inst, c.P.InstrPos(hit), "a success return of "+fname(fn)+" is reachable without passing "+name+": "+why)
		return false
	}
	c.OK(rule, inst, c.P.Pos(fn.Pos()), "every success return passes "+name)
	return true
}

// needFn resolves a function by name or records an undecided anchor.
func (c *Ctx) needFn(rule, name string) *ssa.Function {
	fn := c.P.Fn(name)
	setIPContext(fn)
	if fn == nil || fn.Blocks == nil {
		c.Undecided(rule, "anchor:"+name, "", "anchored function "+name+" not found in the loaded program")
		return nil
	}
	c.Analysed[name] = true
	return fn
}

// anonFuncs returns the anonymous functions directly or transitively nested in fn.
func anonFuncs(fn *ssa.Function) []*ssa.Function {
	var out []*ssa.Function
	for _, a := range fn.AnonFuncs {
		out = append(out, a)
		out = append(out, anonFuncs(a)...)
	}
	return out
}

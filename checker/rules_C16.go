package main

import (
	"go/constant"
	"go/types"
	"regexp"
	"sort"
	"strings"

	"golang.org/x/tools/go/ssa"
)

func init() { register("C16", rulesC16) }

const pkCBOR = "common/cbor"

// c16Pkgs: packages holding hand-written decoders of untrusted bytes (the
// property's anchors and what they call for byte-level parsing).
var c16Pkgs = []string{
	"storage/mkvs/node", "storage/mkvs/syncer", "storage/mkvs/checkpoint", "storage/mkvs/writelog",
	"common/sgx", "common/sgx/pcs", "common/sgx/ias", "common/sgx/quote",
	"common/node", "roothash/api/commitment", "runtime/host/protocol",
}

var c16DecoderName = regexp.MustCompile(`(?i)unmarshal|decode|parse|^verifyProof|^restoreChunk$|^doRestoreChunk$|^readMessage$|^Open$`)

// c16Decoders: the decoder functions (and their closures) of the scoped packages.
func c16Decoders(c *Ctx) []*ssa.Function {
	var out []*ssa.Function
	for _, pk := range c16Pkgs {
		for _, fn := range c.P.FuncsInPkg(pk) {
			root := fn
			for root.Parent() != nil {
				root = root.Parent()
			}
			if root.Synthetic != "" {
				continue
			}
			if c16DecoderName.MatchString(root.Name()) {
				out = append(out, fn)
			}
		}
	}
	sort.Slice(out, func(i, j int) bool { return fname(out[i]) < fname(out[j]) })
	return out
}

func rulesC16(c *Ctx) {
	c.Explain = append(c.Explain,
		"C16 (untrusted bytes are decoded or rejected, never crash the node) — decided: (a) the CBOR decoding options for untrusted input forbid indefinite lengths and tags, enforce duplicate-key rejection and bound array/map sizes; they are written only by the package initialiser; Unmarshal/NewDecoder use the mode built from them; (b) the relaxed UnmarshalTrusted is called only from the node-database and runtime-history packages (data the node wrote itself); MustUnmarshal has no callers; (c) a transaction's size is checked before it is decoded; every self-recursive function in the decoder packages has a depth parameter that is bounded on entry and incremented on every recursive call; (d) in the decoder functions every explicit panic and every unchecked type assertion is a reviewed table row; (e) every index/slice expression and fixed-width integer read inside the decoder functions is either proven in range by the Go compiler's prove pass (the packages are compiled, not run, with -d=ssa/check_bce), or proven by a path-sensitive linear bounds check against the length guards that dominate it, or is a reviewed table row.",
		"NOT decided: bounded time and memory in general (only the declared CBOR limits and the recursion bounds), third-party decoders (fxamacker/cbor, x509, protobuf, encoding/json), hangs, and crashes in code reached after decoding succeeded (semantic validation is C09/C17/C18).")
	ix := c.P.BuildIndex()

	// ---- (a) CBOR options
	var fx *types.Package
	if pk := c.P.Pkg(pkCBOR); pk != nil {
		for _, im := range pk.Types.Imports() {
			if im.Path() == "github.com/fxamacker/cbor/v2" {
				fx = im
			}
		}
	}
	fxConst := func(name string) (int64, bool) {
		if fx == nil {
			return 0, false
		}
		k, ok := fx.Scope().Lookup(name).(*types.Const)
		if !ok {
			return 0, false
		}
		v, exact := constant.Int64Val(k.Val())
		return v, exact
	}
	got := map[string]string{}
	nOptStores := 0
	for _, s := range ix.GlobalStore[pkCBOR+".decOptions"] {
		st := s.In.(*ssa.Store)
		ld, isLd := st.Val.(*ssa.UnOp)
		if !isLd {
			c.Fail("C16.cbor", "decOptions initialiser shape", c.P.InstrPos(s.In), "decOptions is assigned from "+vstrShort(st.Val)+", not from a composite literal")
			continue
		}
		al, isAl := ld.X.(*ssa.Alloc)
		if !isAl || al.Referrers() == nil {
			c.Fail("C16.cbor", "decOptions initialiser shape", c.P.InstrPos(s.In), "decOptions is assigned from "+vstrShort(st.Val)+", not from a composite literal")
			continue
		}
		for _, r := range *al.Referrers() {
			fa, isFa := r.(*ssa.FieldAddr)
			if !isFa || fa.Referrers() == nil {
				continue
			}
			for _, fr := range *fa.Referrers() {
				fst, isSt := fr.(*ssa.Store)
				if !isSt || fst.Addr != ssa.Value(fa) {
					continue
				}
				nOptStores++
				f := fieldName(fa.X.Type(), fa.Field)
				if k, ok := fst.Val.(*ssa.Const); ok && k.Value != nil {
					got[f] = k.Value.ExactString()
				} else {
					got[f] = "non-constant " + vstrShort(fst.Val)
				}
			}
		}
	}
	// no field of the options is written anywhere else
	for field, sites := range ix.FieldStores {
		if !strings.HasPrefix(field, "github.com/fxamacker/cbor/v2.DecOptions.") {
			continue
		}
		for _, s := range sites {
			fa := s.In.(*ssa.Store).Addr.(*ssa.FieldAddr)
			if g, isG := fa.X.(*ssa.Global); isG && gname(g) == pkCBOR+".decOptions" {
				c.Fail("C16.cbor", "decOptions."+field[strings.LastIndex(field, ".")+1:]+"<-"+fname(s.Fn), c.P.InstrPos(s.In), "a field of the decoding options for untrusted input is modified after initialisation")
			}
		}
	}
	for _, w := range []struct{ field, cname, why string }{
		{"DupMapKey", "DupMapKeyEnforcedAPF", "duplicate map keys must be rejected"},
		{"IndefLength", "IndefLengthForbidden", "indefinite-length items must be rejected"},
		{"TagsMd", "TagsForbidden", "CBOR tags must be rejected"},
	} {
		want, ok := fxConst(w.cname)
		c.Check(ok && got[w.field] == itoa(int(want)), "C16.cbor", "decOptions."+w.field+" == "+w.cname, "", w.field+" = "+got[w.field], "decOptions."+w.field+" is "+got[w.field]+", not "+w.cname+": "+w.why)
	}
	for _, f := range []string{"MaxArrayElements", "MaxMapPairs"} {
		ok := false
		if v, has := got[f]; has {
			var n int64
			for _, ch := range v {
				if ch < '0' || ch > '9' {
					n = -1
					break
				}
				n = n*10 + int64(ch-'0')
			}
			ok = n >= 0 && n <= 10_000_000
		} else {
			ok = true // unset: the library default (131072)
		}
		c.Check(ok, "C16.cbor", "decOptions."+f+" <= 10000000", "", f+" = "+got[f], "decOptions."+f+" is "+got[f]+": declared container sizes for untrusted input are no longer bounded by 10^7")
	}
	c.Floor("C16.cbor", nOptStores, 5, "field initialisations of decOptions")
	// whole-struct overwrites of the options / modes
	for _, g := range []string{"decOptions", "decMode"} {
		c.WhoMayStoreGlobal(ix, "C16.cbor", pkCBOR+"."+g, []string{pkCBOR + ".init", pkCBOR + ".init#1"}, "the untrusted-input decoding configuration is fixed at package initialisation")
	}
	// decMode is built from decOptions; Unmarshal and NewDecoder use decMode; the trusted mode only UnmarshalTrusted
	{
		ok := false
		for _, s := range ix.GlobalStore[pkCBOR+".decMode"] {
			st := s.In.(*ssa.Store)
			if strings.Contains(vstr(st.Val), "DecOptions).DecMode(") && strings.Contains(vstr(st.Val), "global:"+pkCBOR+".decOptions") {
				ok = true
			}
		}
		c.Check(ok, "C16.cbor", "decMode = decOptions.DecMode()", "", "the default decoding mode is built from the untrusted-input options", "the default decoding mode is not built from decOptions")
	}
	modeUsers := map[string][]string{}
	for _, fn := range c.P.FuncsInPkg(pkCBOR) {
		for _, b := range blocksIP(fn) {
			for _, in := range b.Instrs {
				if u, ok := in.(*ssa.UnOp); ok {
					if g, ok := u.X.(*ssa.Global); ok && strings.HasPrefix(g.Name(), "decMode") {
						modeUsers[g.Name()] = append(modeUsers[g.Name()], fn.Name())
					}
				}
			}
		}
	}
	for k := range modeUsers {
		sort.Strings(modeUsers[k])
		modeUsers[k] = uniq(modeUsers[k])
	}
	c.Check(strings.Join(modeUsers["decMode"], ",") == "NewDecoder,Unmarshal", "C16.cbor", "decMode users", "", "decMode is used by Unmarshal and NewDecoder", "the strict decoding mode is used by {"+strings.Join(modeUsers["decMode"], ",")+"}, expected {NewDecoder,Unmarshal}")
	c.Check(strings.Join(modeUsers["decModeTrusted"], ",") == "UnmarshalTrusted", "C16.cbor", "decModeTrusted users", "", "the relaxed mode is used by UnmarshalTrusted only", "the relaxed (trusted) decoding mode is used by {"+strings.Join(modeUsers["decModeTrusted"], ",")+"}, expected {UnmarshalTrusted}")

	// ---- (b) WHO
	c.WhoMayCall(ix, "C16.who", pkCBOR+".UnmarshalTrusted", []string{"storage/mkvs/db/badger/", "storage/mkvs/db/pathbadger/", "runtime/history/"}, "the relaxed decoder is only for data the node stored itself")
	c.Floor("C16.who", len(ix.Calls[pkCBOR+".UnmarshalTrusted"]), 10, "UnmarshalTrusted call sites")
	c.WhoMayCall(ix, "C16.who", pkCBOR+".MustUnmarshal", []string{}, "a panicking decoder must not be applied to any input")

	// ---- (c) size before decode; recursion bounds
	if fn := c.needFn("C16.path", fnDecodeTx); fn != nil {
		dec := CallsTo(fn, "cbor.Unmarshal", pkCBOR+".Unmarshal", "")
		c.GuardedByAny("C16.path", fn, "len(rawTx) <= max size", []string{`builtin\.len\(param:rawTx\)\) <= \*.*\.MaxTxSize$`, `\.MaxTxSize <= 0$`}, dec, "oversized transactions are rejected before any decoding work")
	}
	nRec := 0
	for _, pk := range c16Pkgs {
		for _, fn := range c.P.FuncsInPkg(pk) {
			var self []ssa.CallInstruction
			for _, call := range callsIn(fn) {
				if f := call.Common().StaticCallee(); f != nil && f == fn {
					self = append(self, call)
				}
			}
			if len(self) == 0 {
				continue
			}
			nRec++
			c.Analysed[fname(fn)] = true
			// depth parameter: an integer parameter compared on entry against a bound with a failing exit
			found := ""
			for pi, p := range fn.Params {
				bt, isB := p.Type().Underlying().(*types.Basic)
				if !isB || bt.Info()&types.IsInteger == 0 {
					continue
				}
				bounded := false
				for _, b := range fn.Blocks {
					iff := lastIf(b)
					if iff == nil {
						continue
					}
					bo, isBO := iff.Cond.(*ssa.BinOp)
					if !isBO || (bo.X != ssa.Value(p) && bo.Y != ssa.Value(p)) {
						continue
					}
					other := bo.Y
					if bo.Y == ssa.Value(p) {
						other = bo.X
					}
					if _, isConst := other.(*ssa.Const); !isConst {
						if u, isU := other.(*ssa.UnOp); !isU || !strings.Contains(vstr(u), "global:") {
							continue
						}
					}
					// must dominate all recursive calls on its passing side
					bounded = true
				}
				if !bounded {
					continue
				}
				allInc := true
				for _, call := range self {
					a := call.Common().Args
					if pi >= len(a) {
						allInc = false
						continue
					}
					bo, isBO := resolveParam(a[pi]).(*ssa.BinOp)
					k, isK := int64(0), false
					if isBO {
						k, isK = constInt(bo.Y)
					}
					if !isBO || bo.Op.String() != "+" || resolveParam(bo.X) != ssa.Value(p) || !isK || k <= 0 {
						allInc = false
						c.Fail("C16.recursion", fname(fn)+":"+pname(p)+"+1 on every recursive call", c.P.InstrPos(call), "a recursive call passes "+vstrShort(a[pi])+" for the depth parameter "+pname(p)+" instead of "+pname(p)+"+k: nesting through this call is not counted and the depth bound can be bypassed")
					}
				}
				if allInc {
					found = pname(p)
				} else {
					found = "!"
				}
				break
			}
			if found == "" {
				// walks a tree produced by proof verification: some parameter is, at every external call
				// site, the result of VerifyProof, and the recursive calls pass parts of that parameter
				for pi, p := range fn.Params {
					if _, isPtr := p.Type().Underlying().(*types.Pointer); !isPtr || !strings.HasSuffix(typeStr(p.Type()), "node.Pointer") {
						continue
					}
					rec := true
					for _, call := range self {
						a := call.Common().Args
						if pi >= len(a) || !derivedFromParam(a[pi], pname(p)) {
							rec = false
						}
					}
					ext, nExt := true, 0
					for _, st := range ix.Calls[fname(fn)] {
						if st.Fn == fn {
							continue
						}
						nExt++
						a := st.In.(ssa.CallInstruction).Common().Args
						if pi >= len(a) || !strings.Contains(vstr(a[pi]), ".VerifyProof(") {
							ext = false
						}
					}
					if rec && ext && nExt > 0 && len(ix.FuncRefs[fname(fn)]) == 0 {
						found = "verified:" + pname(p)
						break
					}
				}
			}
			if strings.HasPrefix(found, "verified:") {
				c.OK("C16.recursion", fname(fn)+":bounded recursion", c.P.Pos(fn.Pos()), "recurses over parameter "+found[len("verified:"):]+", which every external caller obtains from VerifyProof: depth is bounded by the verified proof's depth (maxProofDepth)")
				continue
			}
			switch found {
			case "":
				if reason, ok := c.Tabled("c16_recursion", fname(fn)); ok {
					c.TabledOK("C16.recursion", fname(fn)+":bounded recursion", c.P.Pos(fn.Pos()), reason)
				} else {
					c.Fail("C16.recursion", fname(fn)+":bounded recursion", c.P.Pos(fn.Pos()), "self-recursive function in a decoder package without a bounded depth parameter: attacker-controlled nesting can exhaust the stack")
				}
			case "!":
			default:
				c.OK("C16.recursion", fname(fn)+":bounded recursion", c.P.Pos(fn.Pos()), "depth parameter "+found+" is compared against a bound and incremented on all "+itoa(len(self))+" recursive calls")
			}
		}
	}
	c.Floor("C16.recursion", nRec, 1, "self-recursive functions in the decoder packages")

	// ---- (d) panics and unchecked type assertions in decoder functions
	decs := c16Decoders(c)
	c.Extra["decoder_functions"] = len(decs)
	c.Floor("C16.panic", len(decs), 50, "decoder functions")
	for _, fn := range decs {
		c.Analysed[fname(fn)] = true
		np, nt := 0, 0
		for _, b := range blocksIP(fn) {
			for _, in := range b.Instrs {
				switch x := in.(type) {
				case *ssa.Panic:
					np++
					key := fname(fn) + " panic#" + itoa(np)
					if reason, ok := c.Tabled("c16_panics", key); ok {
						c.TabledOK("C16.panic", key, c.P.InstrPos(in), reason)
					} else {
						c.Fail("C16.panic", key, c.P.InstrPos(in), "explicit panic in a decoder function: input bytes that reach it crash the node")
					}
				case *ssa.TypeAssert:
					if x.CommaOk {
						continue
					}
					nt++
					key := fname(fn) + " assert#" + itoa(nt) + " " + typeStr(x.AssertedType)
					if reason, ok := c.Tabled("c16_panics", key); ok {
						c.TabledOK("C16.panic", key, c.P.InstrPos(in), reason)
					} else {
						c.Fail("C16.panic", key, c.P.InstrPos(in), "unchecked type assertion in a decoder function: a decoded value of another type crashes the node")
					}
				}
			}
		}
	}

	// supporting check for the tabled verifyProof panic: the version range is enforced before the first call
	if fn := c.needFn("C16.panic", "storage/mkvs/syncer.(*ProofVerifier).verifyProofOpts"); fn != nil {
		vp := CallsTo(fn, "verifyProof", "storage/mkvs/syncer.(*ProofVerifier).verifyProof", "")
		c.GuardedByAny("C16.panic", fn, "proof.V >= MinimumProofVersion", []string{`^\*param:proof\.V >= \d+$`}, vp, "proof versions below the supported range are rejected before verification")
		c.GuardedByAny("C16.panic", fn, "proof.V <= LatestProofVersion", []string{`^\*param:proof\.V <= \d+$`}, vp, "proof versions above the supported range are rejected before verification")
		c.WhoMayCall(ix, "C16.panic", "storage/mkvs/syncer.(*ProofVerifier).verifyProof", []string{"storage/mkvs/syncer.(*ProofVerifier).verifyProofOpts", "storage/mkvs/syncer.(*ProofVerifier).verifyProof"}, "proof verification is entered only through the version check")
	}

	// ---- (e) bounds
	c16Bounds(c, decs)
	rulesC16Round2(c)
}

// derivedFromParam: v is read out of the named parameter, directly or as an
// element of a local array literal all of whose elements are.
func derivedFromParam(v ssa.Value, name string) bool {
	if strings.Contains(vstr(v), "param:"+name) {
		return true
	}
	u, ok := v.(*ssa.UnOp)
	if !ok {
		return false
	}
	ia, ok := u.X.(*ssa.IndexAddr)
	if !ok {
		return false
	}
	var al *ssa.Alloc
	switch x := ia.X.(type) {
	case *ssa.Slice:
		al, _ = x.X.(*ssa.Alloc)
	case *ssa.Alloc:
		al = x
	}
	if al == nil || al.Referrers() == nil {
		return false
	}
	n := 0
	for _, r := range *al.Referrers() {
		eia, ok := r.(*ssa.IndexAddr)
		if !ok || eia.Referrers() == nil {
			continue
		}
		for _, er := range *eia.Referrers() {
			if st, ok := er.(*ssa.Store); ok && st.Addr == ssa.Value(eia) {
				n++
				if !strings.Contains(vstr(st.Val), "param:"+name) {
					return false
				}
			}
		}
	}
	return n > 0
}

package main

import (
	"fmt"
	"go/ast"
	"go/token"
	"go/types"
	"sort"
	"strings"

	"golang.org/x/tools/go/ssa"
)

// MAPORDER (DESIGN §2.7): order-sensitivity of map iteration.

type moSubject struct {
	Fn      *ssa.Function
	Pos     token.Pos
	MapType string
	Kind    string // range | maps.Keys | maps.Values | maps.All
	OK      bool
	Why     string
}

type moCtx struct {
	p      *Prog
	info   *types.Info
	impure map[*types.Func]bool // functions with order-sensitive effects (state writes, events)
	fnBody ast.Node
	// perKeyOK reports whether an impure call is a per-key state write for the innermost iteration
	perKeyOK func(call *ast.CallExpr, tf *types.Func) bool
}

// impureFuncs: module functions from which a consensus state write or an
// event emission is reachable (channel-insensitive over-approximation).
func impureFuncs(p *Prog, g *CG) map[*types.Func]bool {
	isSink := func(fn *ssa.Function) bool {
		for _, c := range callsIn(fn) {
			n := calleeName(c)
			if isKVWrite(n) || strings.HasPrefix(n, "consensus/cometbft/api.(*Context).Emit") || n == ifPublish ||
				strings.HasPrefix(n, "consensus/cometbft/api.(*BlockContext).Set") || strings.HasSuffix(n, ".(*Broker).Broadcast") {
				return true
			}
		}
		return false
	}
	// reverse reachability
	rev := map[*ssa.Function][]*ssa.Function{}
	for f, es := range g.succ {
		for _, e := range es {
			rev[e.To] = append(rev[e.To], f)
		}
	}
	imp := map[*ssa.Function]bool{}
	var work []*ssa.Function
	for _, fn := range p.ModFuncs {
		if fn.Blocks != nil && isSink(fn) {
			imp[fn] = true
			work = append(work, fn)
		}
	}
	for len(work) > 0 {
		f := work[len(work)-1]
		work = work[:len(work)-1]
		for _, r := range rev[f] {
			if !imp[r] {
				imp[r] = true
				work = append(work, r)
			}
		}
	}
	out := map[*types.Func]bool{}
	for f := range imp {
		if tf, ok := f.Object().(*types.Func); ok {
			out[tf] = true
		}
	}
	return out
}

func (m *moCtx) declaredInside(id *ast.Ident, lo, hi token.Pos) bool {
	obj := m.info.ObjectOf(id)
	if obj == nil {
		return true
	}
	return obj.Pos() >= lo && obj.Pos() <= hi
}

func isIntType(t types.Type) bool {
	if t == nil {
		return false
	}
	b, ok := t.Underlying().(*types.Basic)
	return ok && b.Info()&types.IsInteger != 0
}

func rootIdent(e ast.Expr) *ast.Ident {
	for {
		switch x := e.(type) {
		case *ast.Ident:
			return x
		case *ast.SelectorExpr:
			e = x.X
		case *ast.IndexExpr:
			e = x.X
		case *ast.StarExpr:
			e = x.X
		case *ast.ParenExpr:
			e = x.X
		case *ast.UnaryExpr:
			e = x.X
		default:
			return nil
		}
	}
}

func (m *moCtx) calleeOf(call *ast.CallExpr) (*types.Func, string) {
	var id *ast.Ident
	switch f := call.Fun.(type) {
	case *ast.Ident:
		id = f
	case *ast.SelectorExpr:
		id = f.Sel
	case *ast.IndexExpr: // generic instantiation
		if s, ok := f.X.(*ast.SelectorExpr); ok {
			id = s.Sel
		} else if i, ok := f.X.(*ast.Ident); ok {
			id = i
		}
	}
	if id == nil {
		return nil, ""
	}
	obj := m.info.Uses[id]
	if tf, ok := obj.(*types.Func); ok {
		return tf, tfname(tf)
	}
	if b, ok := obj.(*types.Builtin); ok {
		return nil, "builtin." + b.Name()
	}
	return nil, ""
}

func isLoggingCall(name string) bool {
	return strings.HasPrefix(name, "common/logging.") || strings.Contains(name, "(*Logger).")
}

var sorterFuncs = map[string]bool{
	"sort.Slice": true, "sort.SliceStable": true, "sort.Sort": true, "sort.Stable": true, "sort.Strings": true, "sort.Ints": true,
	"slices.Sort": true, "slices.SortFunc": true, "slices.SortStableFunc": true, "slices.Sorted": true, "slices.SortedFunc": true,
}

// isSorterCall: a recognised sorter, or a module function whose body consists
// of a single statement calling a recognised sorter on its first parameter.
func (m *moCtx) isSorterCall(call *ast.CallExpr) bool {
	tf, name := m.calleeOf(call)
	if sorterFuncs[name] {
		return true
	}
	if tf == nil || tf.Pkg() == nil || !inModule(tf.Pkg().Path()) {
		return false
	}
	fn := m.p.SSA.FuncValue(tf)
	if fn == nil {
		return false
	}
	fd, ok := fn.Syntax().(*ast.FuncDecl)
	if !ok || fd.Body == nil || len(fd.Body.List) != 1 {
		return false
	}
	es, ok := fd.Body.List[0].(*ast.ExprStmt)
	if !ok {
		return false
	}
	inner, ok := es.X.(*ast.CallExpr)
	if !ok {
		return false
	}
	pk := m.p.ByPath[tf.Pkg().Path()]
	if pk == nil {
		return false
	}
	m2 := &moCtx{p: m.p, info: pk.TypesInfo}
	_, iname := m2.calleeOf(inner)
	return sorterFuncs[iname]
}

// exprPure: the expression contains no call with order-sensitive effects.
func (m *moCtx) exprPure(e ast.Node) (bool, string) {
	ok := true
	why := ""
	ast.Inspect(e, func(n ast.Node) bool {
		if !ok {
			return false
		}
		switch x := n.(type) {
		case *ast.FuncLit:
			return false
		case *ast.CallExpr:
			tf, name := m.calleeOf(x)
			if tf != nil && m.impure[tf] && m.perKeyOK != nil && m.perKeyOK(x, tf) {
				return true
			}
			if tf != nil && m.impure[tf] {
				ok = false
				why = "calls " + name + " (writes state / emits events)"
				return false
			}
			if tf == nil && name == "" {
				// dynamic call (function value / closure): conservatively impure unless conversion
				if tv, isType := m.info.Types[x.Fun]; isType && tv.IsType() {
					return true
				}
				ok = false
				why = "calls a function value"
				return false
			}
		case *ast.UnaryExpr:
			if x.Op == token.ARROW {
				ok = false
				why = "channel receive"
			}
		}
		return true
	})
	return ok, why
}

type moBody struct {
	m          *moCtx
	lo, hi     token.Pos
	keyVar     types.Object
	keyVars    []types.Object
	collected  map[types.Object]bool
	retSents   map[string]bool
	existStore map[types.Object]bool
}

func (b *moBody) outer(id *ast.Ident) bool {
	obj := b.m.info.ObjectOf(id)
	if obj == nil {
		return false
	}
	if _, isVar := obj.(*types.Var); !isVar {
		return false
	}
	return !(obj.Pos() >= b.lo && obj.Pos() <= b.hi)
}

func (b *moBody) mentionsKey(e ast.Node) bool {
	found := false
	ast.Inspect(e, func(n ast.Node) bool {
		if id, ok := n.(*ast.Ident); ok {
			o := b.m.info.ObjectOf(id)
			if o != nil && (o == b.keyVar) {
				found = true
			}
			for _, k := range b.keyVars {
				if o != nil && o == k {
					found = true
				}
			}
		}
		return !found
	})
	return found
}

func isConstExpr(info *types.Info, e ast.Expr) bool {
	if tv, ok := info.Types[e]; ok && tv.Value != nil {
		return true
	}
	switch x := e.(type) {
	case *ast.Ident:
		return x.Name == "nil" || x.Name == "true" || x.Name == "false"
	case *ast.CompositeLit:
		return len(x.Elts) == 0
	}
	return false
}

func sentinelOf(info *types.Info, e ast.Expr) string {
	switch x := e.(type) {
	case *ast.Ident:
		if x.Name == "nil" {
			return "nil"
		}
		if v, ok := info.ObjectOf(x).(*types.Var); ok && v.Parent() != nil && v.Pkg() != nil && v.Parent() == v.Pkg().Scope() {
			return v.Pkg().Path() + "." + v.Name()
		}
		return "err"
	case *ast.SelectorExpr:
		if v, ok := info.ObjectOf(x.Sel).(*types.Var); ok && v.Pkg() != nil && v.Parent() == v.Pkg().Scope() {
			return v.Pkg().Path() + "." + v.Name()
		}
		return "err"
	case *ast.CallExpr:
		// fmt.Errorf("...%w", X): take the wrapped sentinel if any
		for _, a := range x.Args {
			if s := sentinelOf(info, a); strings.Contains(s, ".Err") {
				return s
			}
		}
		return "err"
	}
	return "err"
}

func (b *moBody) stmt(s ast.Stmt) (bool, string) {
	m := b.m
	pos := func() string { return m.p.Pos(s.Pos()) }
	switch x := s.(type) {
	case nil:
		return true, ""
	case *ast.BlockStmt:
		for _, t := range x.List {
			if ok, why := b.stmt(t); !ok {
				return false, why
			}
		}
		return true, ""
	case *ast.EmptyStmt, *ast.DeclStmt:
		return true, ""
	case *ast.LabeledStmt:
		return b.stmt(x.Stmt)
	case *ast.IfStmt:
		if ok, why := b.stmt(x.Init); !ok {
			return false, why
		}
		if ok, why := m.exprPure(x.Cond); !ok {
			return false, "condition at " + pos() + " " + why
		}
		if ok, why := b.stmt(x.Body); !ok {
			return false, why
		}
		return b.stmt(x.Else)
	case *ast.SwitchStmt:
		if ok, why := b.stmt(x.Init); !ok {
			return false, why
		}
		if x.Tag != nil {
			if ok, why := m.exprPure(x.Tag); !ok {
				return false, why
			}
		}
		for _, cc := range x.Body.List {
			for _, t := range cc.(*ast.CaseClause).Body {
				if ok, why := b.stmt(t); !ok {
					return false, why
				}
			}
		}
		return true, ""
	case *ast.TypeSwitchStmt:
		for _, cc := range x.Body.List {
			for _, t := range cc.(*ast.CaseClause).Body {
				if ok, why := b.stmt(t); !ok {
					return false, why
				}
			}
		}
		return true, ""
	case *ast.ForStmt:
		if ok, why := b.stmt(x.Init); !ok {
			return false, why
		}
		if ok, why := b.stmt(x.Post); !ok {
			return false, why
		}
		return b.stmt(x.Body)
	case *ast.RangeStmt:
		// nested iteration: its key variable (for maps) or element (for slices of keyed records) also identifies the entry
		if id, ok := x.Key.(*ast.Ident); ok && id.Name != "_" {
			if _, isMap := m.info.TypeOf(x.X).Underlying().(*types.Map); isMap {
				b.keyVars = append(b.keyVars, m.info.ObjectOf(id))
				defer func() { b.keyVars = b.keyVars[:len(b.keyVars)-1] }()
			}
		}
		return b.stmt(x.Body)
	case *ast.BranchStmt:
		if x.Tok == token.CONTINUE || x.Tok == token.BREAK {
			return true, ""
		}
		return false, "goto/fallthrough at " + pos()
	case *ast.IncDecStmt:
		id := rootIdent(x.X)
		if id == nil || !b.outer(id) {
			return true, ""
		}
		if isIntType(m.info.TypeOf(x.X)) {
			return true, "" // commutative count
		}
		return false, "inc/dec of non-integer outer value at " + pos()
	case *ast.ExprStmt:
		call, ok := x.X.(*ast.CallExpr)
		if !ok {
			return m.exprPureStmt(x.X, pos())
		}
		tf, name := m.calleeOf(call)
		switch {
		case isLoggingCall(name), name == "builtin.delete", name == "builtin.panic", name == "builtin.copy":
			return true, ""
		case strings.HasSuffix(name, "common/quantity.(*Quantity).Add"):
			return true, "" // commutative accumulation
		}
		if tf != nil && m.impure[tf] && !(m.perKeyOK != nil && m.perKeyOK(call, tf)) {
			return false, "call of " + name + " at " + pos() + " writes state or emits events in iteration order"
		}
		return m.exprPureStmt(x.X, pos())
	case *ast.AssignStmt:
		for _, r := range x.Rhs {
			// append-collect is handled below; otherwise RHS must be pure
			if call, ok := r.(*ast.CallExpr); ok {
				if _, name := m.calleeOf(call); name == "builtin.append" {
					for _, a := range call.Args[1:] {
						if ok, why := m.exprPure(a); !ok {
							return false, why
						}
					}
					continue
				}
				if _, name := m.calleeOf(call); strings.HasSuffix(name, "common/quantity.(*Quantity).Add") {
					continue
				}
			}
			if ok, why := m.exprPure(r); !ok {
				return false, "assignment at " + pos() + " " + why
			}
		}
		if x.Tok == token.DEFINE {
			return true, ""
		}
		for i, l := range x.Lhs {
			if id, ok := l.(*ast.Ident); ok && id.Name == "_" {
				continue
			}
			id := rootIdent(l)
			if id == nil || !b.outer(id) {
				continue
			}
			obj := m.info.ObjectOf(id)
			var rhs ast.Expr
			if i < len(x.Rhs) {
				rhs = x.Rhs[i]
			} else if len(x.Rhs) == 1 {
				rhs = x.Rhs[0]
			}
			// s = append(s, ...)
			if call, ok := rhs.(*ast.CallExpr); ok {
				if _, name := m.calleeOf(call); name == "builtin.append" {
					if a0 := rootIdent(call.Args[0]); a0 != nil && m.info.ObjectOf(a0) == obj {
						if _, isIdx := l.(*ast.IndexExpr); isIdx {
							// m2[k] = append(m2[k], v): per-key collect; order within a key's slice depends on iteration order only if two iterations share k
							if ie := l.(*ast.IndexExpr); b.mentionsKey(ie.Index) {
								continue
							}
							return false, "per-key append with a key not derived from the map key at " + pos()
						}
						b.collected[obj] = true
						continue
					}
				}
			}
			switch lx := l.(type) {
			case *ast.IndexExpr:
				// per-key update of an outer map / slice element
				if _, isMap := m.info.TypeOf(lx.X).Underlying().(*types.Map); isMap {
					if b.mentionsKey(lx.Index) || (rhs != nil && isConstExpr(m.info, rhs)) || x.Tok == token.ADD_ASSIGN || x.Tok == token.OR_ASSIGN {
						continue
					}
					return false, "map update at " + pos() + " whose key is not derived from the iteration key and whose value is not constant"
				}
				if b.mentionsKey(lx.Index) {
					continue
				}
				return false, "indexed store at " + pos() + " not derived from the iteration key"
			default:
				t := m.info.TypeOf(l)
				switch {
				case (x.Tok == token.ADD_ASSIGN || x.Tok == token.SUB_ASSIGN || x.Tok == token.OR_ASSIGN || x.Tok == token.AND_ASSIGN || x.Tok == token.XOR_ASSIGN) && isIntType(t):
					continue // commutative accumulation
				case x.Tok == token.ASSIGN && rhs != nil && isConstExpr(m.info, rhs):
					b.existStore[obj] = true
					continue // existential flag
				case x.Tok == token.ASSIGN && isErrorType(t):
					continue // err = f(...): handled by the following error check
				}
				return false, "assignment to outer variable " + id.Name + " at " + pos() + " depends on iteration order (last/first writer wins)"
			}
		}
		return true, ""
	case *ast.ReturnStmt:
		for _, r := range x.Results {
			t := m.info.TypeOf(r)
			if t != nil && isErrorType(t) {
				b.retSents[sentinelOf(m.info, r)] = true
				continue
			}
			if !isConstExpr(m.info, r) {
				return false, "return of an iteration-dependent value at " + pos() + " (first match wins)"
			}
		}
		return true, ""
	case *ast.DeferStmt, *ast.GoStmt, *ast.SendStmt, *ast.SelectStmt:
		return false, "defer/go/send inside map iteration at " + pos()
	}
	return false, fmt.Sprintf("unrecognised statement %T at %s", s, pos())
}

func (m *moCtx) exprPureStmt(e ast.Expr, pos string) (bool, string) {
	if ok, why := m.exprPure(e); !ok {
		return false, "expression at " + pos + " " + why
	}
	return true, ""
}

// sortedBeforeUse: after position `after`, the first order-sensitive use of
// obj in the function body is an argument of a sorter.
func (m *moCtx) sortedBeforeUse(obj types.Object, after token.Pos) (bool, string) {
	type use struct {
		pos   token.Pos
		kind  string // sort | benign | other
		where string
	}
	var uses []use
	var stack []ast.Node
	ast.Inspect(m.fnBody, func(n ast.Node) bool {
		if n == nil {
			stack = stack[:len(stack)-1]
			return true
		}
		stack = append(stack, n)
		id, ok := n.(*ast.Ident)
		if !ok || m.info.ObjectOf(id) != obj || id.Pos() <= after {
			return true
		}
		kind := "other"
		// look at enclosing nodes
		for i := len(stack) - 2; i >= 0 && i >= len(stack)-5; i-- {
			switch p := stack[i].(type) {
			case *ast.CallExpr:
				_, name := m.calleeOf(p)
				switch {
				case name == "builtin.len" || name == "builtin.cap":
					kind = "benign"
				case m.isSorterCall(p):
					kind = "sort"
				}
			case *ast.BinaryExpr:
				if (p.Op == token.EQL || p.Op == token.NEQ) && (isNilIdent(p.X) || isNilIdent(p.Y)) {
					kind = "benign"
				}
			case *ast.AssignStmt:
				// s = append(s, ...) later: still collecting
				if len(p.Rhs) == 1 {
					if c, ok := p.Rhs[0].(*ast.CallExpr); ok {
						if _, name := m.calleeOf(c); name == "builtin.append" && len(p.Lhs) == 1 {
							if l := rootIdent(p.Lhs[0]); l != nil && m.info.ObjectOf(l) == obj {
								kind = "benign"
							}
						}
					}
				}
			}
			if kind != "other" {
				break
			}
		}
		uses = append(uses, use{id.Pos(), kind, m.p.Pos(id.Pos())})
		return true
	})
	sort.Slice(uses, func(i, j int) bool { return uses[i].pos < uses[j].pos })
	for _, u := range uses {
		switch u.kind {
		case "sort":
			return true, ""
		case "benign":
			continue
		default:
			return false, "collected slice " + obj.Name() + " is used at " + u.where + " before being sorted"
		}
	}
	return true, "" // never used order-sensitively
}

func isNilIdent(e ast.Expr) bool {
	id, ok := e.(*ast.Ident)
	return ok && id.Name == "nil"
}

// MapOrderSubjects classifies every map iteration in the given functions.
func MapOrderSubjects(p *Prog, fns []*ssa.Function, impure map[*types.Func]bool) []moSubject {
	var out []moSubject
	seenDecl := map[ast.Node]bool{}
	for _, fn := range fns {
		top := fn
		for top.Parent() != nil {
			top = top.Parent()
		}
		syn := top.Syntax()
		if syn == nil || seenDecl[syn] {
			continue
		}
		seenDecl[syn] = true
		pk := p.ByPath[fpkgPath(top)]
		if pk == nil || pk.TypesInfo == nil {
			continue
		}
		m := &moCtx{p: p, info: pk.TypesInfo, impure: impure, fnBody: syn}
		ast.Inspect(syn, func(n ast.Node) bool {
			switch x := n.(type) {
			case *ast.RangeStmt:
				t := m.info.TypeOf(x.X)
				if t == nil {
					return true
				}
				kind := ""
				if _, isMap := t.Underlying().(*types.Map); isMap {
					kind = "range"
				} else if call, ok := x.X.(*ast.CallExpr); ok {
					if _, name := m.calleeOf(call); name == "maps.Keys" || name == "maps.Values" || name == "maps.All" {
						kind = "range-" + name
					}
				}
				if kind == "" {
					return true
				}
				b := &moBody{m: m, lo: x.Pos(), hi: x.End(), collected: map[types.Object]bool{}, retSents: map[string]bool{}, existStore: map[types.Object]bool{}}
				if id, ok := x.Key.(*ast.Ident); ok && id.Name != "_" {
					b.keyVar = m.info.ObjectOf(id)
				}
				// per-key state write: a setter of a */state package one of whose arguments is derived from the iteration key
				m.perKeyOK = func(call *ast.CallExpr, tf *types.Func) bool {
					if b.keyVar == nil || tf.Pkg() == nil || !strings.HasSuffix(tf.Pkg().Path(), "/state") {
						return false
					}
					n := tf.Name()
					if !(strings.HasPrefix(n, "Set") || strings.HasPrefix(n, "Remove") || strings.HasPrefix(n, "Add")) {
						return false
					}
					for _, a := range call.Args {
						if b.mentionsKey(a) {
							return true
						}
					}
					return false
				}
				ok, why := b.stmt(x.Body)
				m.perKeyOK = nil
				if ok && len(b.retSents) > 1 {
					delete(b.retSents, "nil")
					if len(b.retSents) > 1 {
						var ss []string
						for s := range b.retSents {
							ss = append(ss, s[strings.LastIndex(s, "/")+1:])
						}
						sort.Strings(ss)
						ok, why = false, "different errors {"+strings.Join(ss, ", ")+"} can be returned from inside the iteration: which one is reported depends on iteration order"
					}
				}
				if ok {
					for obj := range b.collected {
						if s, w := m.sortedBeforeUse(obj, x.End()); !s {
							ok, why = false, w
						}
					}
				}
				out = append(out, moSubject{Fn: top, Pos: x.Pos(), MapType: typeStr(t), Kind: kind, OK: ok, Why: why})
			case *ast.AssignStmt:
				// x := slices.Collect(maps.Keys(m)) / maps.Keys used as a value
				for i, r := range x.Rhs {
					call, ok := r.(*ast.CallExpr)
					if !ok {
						continue
					}
					_, name := m.calleeOf(call)
					var inner *ast.CallExpr
					if name == "slices.Collect" && len(call.Args) == 1 {
						inner, _ = call.Args[0].(*ast.CallExpr)
					}
					if inner == nil {
						continue
					}
					if _, iname := m.calleeOf(inner); iname != "maps.Keys" && iname != "maps.Values" {
						continue
					}
					if i >= len(x.Lhs) {
						continue
					}
					id, ok := x.Lhs[i].(*ast.Ident)
					if !ok {
						continue
					}
					s, w := m.sortedBeforeUse(m.info.ObjectOf(id), x.End())
					out = append(out, moSubject{Fn: top, Pos: x.Pos(), MapType: typeStr(m.info.TypeOf(inner.Args[0])), Kind: "collect(maps.Keys)", OK: s, Why: w})
				}
			}
			return true
		})
	}
	return out
}

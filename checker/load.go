package main

import (
	"fmt"
	"go/token"
	"go/types"
	"os"
	"sort"
	"strings"
	"time"

	"golang.org/x/tools/go/packages"
	"golang.org/x/tools/go/ssa"
	"golang.org/x/tools/go/ssa/ssautil"
)

// ModPrefix is the import-path prefix of the analysed module.
const ModPrefix = "github.com/oasisprotocol/oasis-core/go"

// Prog is the loaded, type-checked and SSA-lowered program.
type Prog struct {
	KnownFuncs, NewHelpers     int // rows of tables/known_funcs.tsv / functions analysed as part of their callers (ip.go)
	NamesAliased, NamesRenamed int // functions rendered under the recorded parameter names / of which renamed since
	RepoGo                     string
	Fset                       *token.FileSet
	Pkgs                       []*packages.Package          // module packages
	ByPath                     map[string]*packages.Package // all packages by import path
	SSA                        *ssa.Program
	ModFuncs                   []*ssa.Function          // every function (incl. anonymous, instantiations) whose package is in the module
	ByName                     map[string]*ssa.Function // short qualified name -> function
	AllFuncs                   map[*ssa.Function]bool
	LoadS                      float64
	SSAS                       float64

	cg *CG
}

// short strips the module prefix from a package path.
func short(path string) string {
	if path == ModPrefix {
		return "."
	}
	return strings.TrimPrefix(path, ModPrefix+"/")
}

func inModule(path string) bool {
	return path == ModPrefix || strings.HasPrefix(path, ModPrefix+"/")
}

// fpkg returns the package of a function, following origins of instantiations
// and parents of anonymous functions.
func fpkg(fn *ssa.Function) *ssa.Package {
	for fn != nil {
		if fn.Pkg != nil {
			return fn.Pkg
		}
		if fn.Origin() != nil && fn.Origin() != fn {
			fn = fn.Origin()
			continue
		}
		if fn.Parent() != nil {
			fn = fn.Parent()
			continue
		}
		break
	}
	return nil
}

func fpkgPath(fn *ssa.Function) string {
	if p := fpkg(fn); p != nil && p.Pkg != nil {
		return p.Pkg.Path()
	}
	// wrappers / synthetic: use the object's package
	if fn != nil && fn.Object() != nil && fn.Object().Pkg() != nil {
		return fn.Object().Pkg().Path()
	}
	return ""
}

// fname gives the short qualified name used as a key everywhere:
//
//	consensus/cometbft/apps/roothash.(*Application).submitEvidence
//	storage/mkvs/syncer.(*ProofVerifier).verifyProof
//	consensus/cometbft/abci.newApplicationState$1   (anonymous)
func fname(fn *ssa.Function) string {
	if fn == nil {
		return "<nil>"
	}
	if len(renamedFn) > 0 {
		if old, ok := renamedFn[fn]; ok {
			return old
		}
	}
	if fn.Parent() != nil {
		// anonymous function: parent name + suffix of own name
		nm := fn.Name()
		return fname(fn.Parent()) + "$" + nm[strings.LastIndex(nm, "$")+1:]
	}
	pp := short(fpkgPath(fn))
	if recv := fn.Signature.Recv(); recv != nil {
		t := recv.Type()
		ptr := ""
		if p, ok := t.(*types.Pointer); ok {
			t = p.Elem()
			ptr = "*"
		}
		tn := "?"
		if n, ok := t.(*types.Named); ok {
			tn = n.Obj().Name()
			if n.Obj().Pkg() != nil {
				pp = short(n.Obj().Pkg().Path())
			}
		} else if a, ok := t.(*types.Alias); ok {
			tn = a.Obj().Name()
		}
		if ptr != "" {
			return fmt.Sprintf("%s.(*%s).%s", pp, tn, fn.Name())
		}
		return fmt.Sprintf("%s.(%s).%s", pp, tn, fn.Name())
	}
	return pp + "." + fn.Name()
}

// tfname gives the same short qualified name for a *types.Func.
func tfname(f *types.Func) string {
	if f == nil {
		return "<nil>"
	}
	pp := ""
	if f.Pkg() != nil {
		pp = short(f.Pkg().Path())
	}
	sig, _ := f.Type().(*types.Signature)
	if sig != nil && sig.Recv() != nil {
		t := sig.Recv().Type()
		ptr := false
		if p, ok := t.(*types.Pointer); ok {
			t = p.Elem()
			ptr = true
		}
		tn := "?"
		switch n := t.(type) {
		case *types.Named:
			tn = n.Obj().Name()
			if n.Obj().Pkg() != nil {
				pp = short(n.Obj().Pkg().Path())
			}
		case *types.Alias:
			tn = n.Obj().Name()
		}
		if _, isIface := t.Underlying().(*types.Interface); isIface {
			return fmt.Sprintf("%s.(%s).%s", pp, tn, f.Name())
		}
		if ptr {
			return fmt.Sprintf("%s.(*%s).%s", pp, tn, f.Name())
		}
		return fmt.Sprintf("%s.(%s).%s", pp, tn, f.Name())
	}
	return pp + "." + f.Name()
}

// Load loads ./... of the module rooted at repoGo.
func Load(repoGo string, patterns ...string) (*Prog, error) {
	if len(patterns) == 0 {
		patterns = []string{"./..."}
	}
	t0 := time.Now()
	cfg := &packages.Config{
		Mode: packages.NeedName | packages.NeedFiles | packages.NeedCompiledGoFiles | packages.NeedImports |
			packages.NeedDeps | packages.NeedTypes | packages.NeedSyntax | packages.NeedTypesInfo |
			packages.NeedTypesSizes | packages.NeedModule,
		Dir:   repoGo,
		Tests: false,
		Env:   append(os.Environ(), "GOWORK=off"),
	}
	initial, err := packages.Load(cfg, patterns...)
	if err != nil {
		return nil, fmt.Errorf("packages.Load: %w", err)
	}
	p := &Prog{RepoGo: repoGo, ByPath: map[string]*packages.Package{}, ByName: map[string]*ssa.Function{}, AllFuncs: map[*ssa.Function]bool{}}
	nerr := 0
	var firstErr string
	packages.Visit(initial, nil, func(pk *packages.Package) {
		p.ByPath[pk.PkgPath] = pk
		if inModule(pk.PkgPath) {
			for _, e := range pk.Errors {
				nerr++
				if firstErr == "" {
					firstErr = e.Error()
				}
			}
			if pk.IllTyped {
				nerr++
				if firstErr == "" {
					firstErr = pk.PkgPath + ": ill-typed"
				}
			}
		}
	})
	for _, pk := range initial {
		if inModule(pk.PkgPath) {
			p.Pkgs = append(p.Pkgs, pk)
		}
	}
	sort.Slice(p.Pkgs, func(i, j int) bool { return p.Pkgs[i].PkgPath < p.Pkgs[j].PkgPath })
	if nerr > 0 {
		return nil, fmt.Errorf("%d type/load errors in module packages; first: %s", nerr, firstErr)
	}
	if len(initial) > 0 {
		p.Fset = initial[0].Fset
	}
	p.LoadS = time.Since(t0).Seconds()

	t1 := time.Now()
	prog, _ := ssautil.AllPackages(initial, ssa.InstantiateGenerics)
	prog.Build()
	p.SSA = prog
	for fn := range ssautil.AllFunctions(prog) {
		p.AllFuncs[fn] = true
		if inModule(fpkgPath(fn)) {
			p.ModFuncs = append(p.ModFuncs, fn)
		}
	}
	sort.Slice(p.ModFuncs, func(i, j int) bool {
		a, b := fname(p.ModFuncs[i]), fname(p.ModFuncs[j])
		if a != b {
			return a < b
		}
		return p.ModFuncs[i].Pos() < p.ModFuncs[j].Pos()
	})
	for _, fn := range p.ModFuncs {
		if fn.Synthetic != "" && fn.Parent() == nil && fn.Origin() == nil {
			// wrappers, thunks, bound methods: not source functions
			if fn.Blocks == nil || strings.HasPrefix(fn.Synthetic, "wrapper") || strings.HasPrefix(fn.Synthetic, "bound") || strings.HasPrefix(fn.Synthetic, "thunk") {
				continue
			}
		}
		if fn.Origin() != nil && fn.Origin() != fn {
			continue // instantiation; keyed by origin
		}
		n := fname(fn)
		if _, dup := p.ByName[n]; !dup {
			p.ByName[n] = fn
		}
	}
	p.SSAS = time.Since(t1).Seconds()
	return p, nil
}

// Fn looks a function up by short qualified name; nil if absent.
func (p *Prog) Fn(name string) *ssa.Function { return p.ByName[name] }

// Pos renders a position relative to the repo root.
func (p *Prog) Pos(pos token.Pos) string {
	if !pos.IsValid() {
		return "?"
	}
	ps := p.Fset.Position(pos)
	f := ps.Filename
	if i := strings.Index(f, "/go/"); i >= 0 && strings.HasPrefix(f, p.RepoGo) {
		f = "go/" + strings.TrimPrefix(f, p.RepoGo+"/")
	}
	return fmt.Sprintf("%s:%d", f, ps.Line)
}

// InstrPos finds a usable position for an instruction (falls back to the
// nearest positioned instruction in the block, then the function).
func (p *Prog) InstrPos(in ssa.Instruction) string {
	if in == nil {
		return "?"
	}
	if in.Pos().IsValid() {
		return p.Pos(in.Pos())
	}
	if v, ok := in.(ssa.Value); ok {
		_ = v
	}
	if b := in.Block(); b != nil {
		for _, x := range b.Instrs {
			if x.Pos().IsValid() {
				return p.Pos(x.Pos()) + "~"
			}
		}
		if b.Parent() != nil {
			return p.Pos(b.Parent().Pos()) + "~"
		}
	}
	return "?"
}

// Pkg returns the types package for a short path.
func (p *Prog) Pkg(shortPath string) *packages.Package {
	if shortPath == "." {
		return p.ByPath[ModPrefix]
	}
	if pk, ok := p.ByPath[ModPrefix+"/"+shortPath]; ok {
		return pk
	}
	return p.ByPath[shortPath]
}

// FuncsInPkg lists module functions (incl. anonymous) of a short package path.
func (p *Prog) FuncsInPkg(shortPath string) []*ssa.Function {
	var out []*ssa.Function
	full := ModPrefix + "/" + shortPath
	for _, fn := range p.ModFuncs {
		if fpkgPath(fn) == full && fn.Blocks != nil {
			out = append(out, fn)
		}
	}
	return out
}

package main

import (
	"go/constant"
	"go/token"
	"go/types"
	"math"

	"golang.org/x/tools/go/ssa"
)

// usubGuarded: the unsigned subtraction x - y is dominated by a branch on which x >= y (or x > y) holds for the same
// values (structural value equality), in any of the spellings x >= y, x > y, y <= x, y < x, !(x < y), !(y > x), ...
func usubGuarded(bo *ssa.BinOp) bool {
	// MaxT - y cannot wrap
	if k, ok := bo.X.(*ssa.Const); ok && k.Value != nil {
		if bt, ok := bo.Type().Underlying().(*types.Basic); ok {
			if u, exact := constant.Uint64Val(k.Value); exact {
				switch bt.Kind() {
				case types.Uint64, types.Uint, types.Uintptr:
					if u == math.MaxUint64 {
						return true
					}
				case types.Uint32:
					if u == math.MaxUint32 {
						return true
					}
				case types.Uint16:
					if u == math.MaxUint16 {
						return true
					}
				case types.Uint8:
					if u == math.MaxUint8 {
						return true
					}
				}
			}
		}
	}
	// x - k under x != 0 / x > c / x >= c
	if k, isK := constInt(bo.Y); isK && k >= 0 {
		for _, h := range heldCondVals(bo) {
			c, ok := h.Cond.(*ssa.BinOp)
			if !ok {
				continue
			}
			cx, cy, op := c.X, c.Y, c.Op
			if _, xc := constInt(cx); xc {
				// constant on the left: mirror
				cx, cy = cy, cx
				switch op {
				case token.LSS:
					op = token.GTR
				case token.LEQ:
					op = token.GEQ
				case token.GTR:
					op = token.LSS
				case token.GEQ:
					op = token.LEQ
				}
			}
			cv, isC := constInt(cy)
			if !isC || !sameValue(cx, bo.X, 0) {
				continue
			}
			if !h.Pol {
				switch op {
				case token.EQL:
					op = token.NEQ
				case token.NEQ:
					op = token.EQL
				case token.LSS:
					op = token.GEQ
				case token.LEQ:
					op = token.GTR
				case token.GTR:
					op = token.LEQ
				case token.GEQ:
					op = token.LSS
				}
			}
			switch {
			case op == token.NEQ && cv == 0 && k <= 1:
				return true
			case op == token.GTR && cv >= k-1:
				return true
			case op == token.GEQ && cv >= k:
				return true
			}
		}
	}
	for _, h := range heldCondVals(bo) {
		c, ok := h.Cond.(*ssa.BinOp)
		if !ok {
			continue
		}
		op := c.Op
		if !h.Pol {
			switch op {
			case token.LSS:
				op = token.GEQ
			case token.LEQ:
				op = token.GTR
			case token.GTR:
				op = token.LEQ
			case token.GEQ:
				op = token.LSS
			default:
				continue
			}
		}
		switch op {
		case token.GEQ, token.GTR:
			if sameValue(c.X, bo.X, 0) && sameValue(c.Y, bo.Y, 0) {
				return true
			}
		case token.LEQ, token.LSS:
			if sameValue(c.X, bo.Y, 0) && sameValue(c.Y, bo.X, 0) {
				return true
			}
		}
	}
	return false
}

package main

import (
	"strings"

	"golang.org/x/tools/go/ssa"
)

func init() { register("C18", rulesC18) }

const pkPCS = "common/sgx/pcs"

type c18ob struct {
	call string // callee that must succeed (short name), or ""
	cond string // condition regex that must hold, or ""
	name string
	why  string
}

func rulesC18(c *Ctx) {
	c.Explain = append(c.Explain,
		"C18 (attestation quotes accepted only as signed and within policy) — decided, with the package-level unsafe* switches assumed false: Quote.Verify can return a verified quote only through the full obligation tree — policy not disabled; debug/production mode match; TDX policy present and satisfied for TDX; quote signature verification, which requires: PCK certificate chain of length 3 verified to the Intel trust roots at the given time with the expected root, FMSPC extracted, QE report signature under the PCK key over the raw QE report, QE report data = SHA-256(attestation key ‖ authentication data) followed by zeros, TCB bundle present and verified (TCB signing chain of length 2 to the Intel roots at the given time; QE identity and TCB info each signature-verified over their raw JSON, decoded from those same bytes, and validated for id/version/issue date/validity period/evaluation number/whitelist/blacklist; QE identity matched against the QE report; FMSPC equal to the PCK's; TCB level status acceptable), and the ECDSA quote signature under the attestation key over header.Raw()‖reportBody.Raw(); the identity and report data returned are read from the same report body that was signed; the unsafe switches are only written by their setters, which are only called from debug/test tooling.",
		"NOT decided: correctness of x509/ECDSA/SHA-256, time-window arithmetic at the boundaries, TCB level matching logic (getTCBLevel), TDX module policy semantics.")
	c18Round2(c)
	c18Round3(c)
	c18Round4(c)
	c18Round5(c)
	c.AssumeFalse = `^\*global:common/sgx/pcs\.unsafe(SkipVerify|LaxVerify)$`
	ix := c.P.BuildIndex()
	spec := map[string][]c18ob{
		pkPCS + ".(*Quote).Verify": {
			{cond: `^!\*phi\(.*\)\.Disabled$|^!\*.*policy.*\.Disabled$`, name: "policy not disabled", why: "a disabled policy accepts nothing"},
			{call: pkPCS + ".(QuoteSignature).Verify", name: "q.signature.Verify", why: "the quote's signature chain must verify"},
			{cond: `^\*global:common/sgx/pcs\.unsafeAllowDebugEnclaves == .*Contains\(`, name: "debug/production mode match", why: "debug enclaves only in debug mode and vice versa"},
		},
		pkPCS + ".(*QuoteSignatureECDSA_P256).Verify": {
			{call: pkPCS + ".(*CertificationData_QEReport).verify", name: "qe.verify", why: "attestation key must be certified by the QE report / PCK chain / TCB"},
			{call: "crypto/ecdsa.ParseUncompressedPublicKey", name: "attestation key parses", why: "well-formed P-256 point"},
			{cond: `^common/sgx/pcs\.\(\*SignatureECDSA_P256\)\.Verify\(param:qs\.signature,crypto/ecdsa\.ParseUncompressedPublicKey\(.*\)#0,.*Sum\(.*\)\)$`, name: "quote signature over header‖report under the attestation key", why: "the report body must be signed by the certified attestation key"},
		},
		pkPCS + ".(*CertificationData_QEReport).verify": {
			{call: pkPCS + ".(*CertificationData_QEReport).verifyPCK", name: "verifyPCK", why: "PCK certificate chain"},
			{cond: `^common/sgx/pcs\.\(\*SignatureECDSA_P256\)\.Verify\(param:qe\.QEReportSignature,\*.*verifyPCK\(.*\)#0\.PublicKey,.*\)$`, name: "QE report signature under PCK key", why: "the QE report must be signed by the platform's PCK"},
			{cond: `^bytes\.Equal\(\*?param:qe\.QEReport\.reportData\[:32\],.*Sum\(.*\)\)$`, name: "QE report data binds the attestation key", why: "reportData[:32] == SHA256(attKey‖authData)"},
			{cond: `^bytes\.Equal\(\*?param:qe\.QEReport\.reportData\[32:\],`, name: "QE report data tail is zero", why: "no other data smuggled in"},
			{cond: `^param:tcb != nil$`, name: "TCB bundle present", why: "collateral is mandatory"},
			{call: pkPCS + ".(*TCBBundle).Verify", name: "tcb.Verify", why: "collateral must verify"},
		},
		pkPCS + ".(*CertificationData_QEReport).verifyPCK": {
			{call: pkPCS + ".(*CertificationData_QEReport).verifyCertificateChain", name: "verifyCertificateChain", why: "PCK leaf is chained to Intel's root"},
			{cond: `\.FMSPC != nil$`, name: "FMSPC present", why: "platform identity needed to match collateral"},
		},
		pkPCS + ".(*CertificationData_QEReport).verifyCertificateChain": {
			{cond: `^builtin\.len\(.*CertificateChain\) == 3$`, name: "chain length 3", why: "leaf, intermediate, root"},
			{call: "crypto/x509.(*Certificate).Verify", name: "x509 verification", why: "chain to trust roots at ts"},
			{cond: `^builtin\.len\(crypto/x509\.\(\*Certificate\)\.Verify\(.*\)#0\) == 1$`, name: "exactly one chain", why: "unambiguous chain"},
			{cond: `^crypto/x509\.\(\*Certificate\)\.Equal\(.*\)$`, name: "root equals bundled root", why: "the bundled root is the trusted one"},
		},
		pkPCS + ".(*TCBBundle).Verify": {
			{call: pkPCS + ".(*TCBBundle).getPublicKey", name: "TCB signing key", why: "collateral signer chained to Intel's root"},
			{call: pkPCS + ".(*TCBBundle).verifyQEIdentity", name: "QE identity", why: "QE must be Intel's"},
			{call: pkPCS + ".(*TCBBundle).verifyTCBInfo", name: "TCB info", why: "platform TCB level"},
		},
		pkPCS + ".(*TCBBundle).verifyQEIdentity": {
			{call: pkPCS + ".(*SignedQEIdentity).open", name: "QEIdentity.open", why: "signed + valid QE identity"},
			{call: pkPCS + ".(*QEIdentity).verify", name: "QEIdentity.verify(report)", why: "QE report matches the identity"},
		},
		pkPCS + ".(*TCBBundle).verifyTCBInfo": {
			{call: pkPCS + ".(*SignedTCBInfo).open", name: "TCBInfo.open", why: "signed + valid TCB info"},
			{call: pkPCS + ".(*TCBInfo).validateFMSPC", name: "validateFMSPC", why: "collateral belongs to the quote's platform"},
			{call: pkPCS + ".(*TCBInfo).validateTCBLevel", name: "validateTCBLevel", why: "TCB status allowed"},
		},
		pkPCS + ".(*TCBBundle).getPublicKey": {
			{cond: `^builtin\.len\(phi\(.*\)\) == 2$`, name: "two certificates", why: "signer + root"},
			{call: "crypto/x509.(*Certificate).Verify", name: "x509 verification", why: "chain to trust roots at ts"},
			{cond: `^builtin\.len\(crypto/x509\.\(\*Certificate\)\.Verify\(.*\)#0\) == 1$`, name: "exactly one chain", why: "unambiguous"},
			{cond: `^crypto/x509\.\(\*Certificate\)\.Equal\(.*\)$`, name: "root equals bundled root", why: "expected root"},
		},
		pkPCS + ".(*SignedTCBInfo).open": {
			{call: pkPCS + ".verifyTCBSignature", name: "verifyTCBSignature", why: "TCB info is Intel-signed"},
			{call: "encoding/json.Unmarshal", name: "decode", why: "well-formed"},
			{call: pkPCS + ".(*TCBInfo).validate", name: "validate", why: "id/version/validity window/evaluation number/FMSPC lists"},
		},
		pkPCS + ".(*SignedQEIdentity).open": {
			{call: pkPCS + ".verifyTCBSignature", name: "verifyTCBSignature", why: "QE identity is Intel-signed"},
			{call: "encoding/json.Unmarshal", name: "decode", why: "well-formed"},
			{call: pkPCS + ".(*QEIdentity).validate", name: "validate", why: "id/version/validity window/evaluation number"},
		},
		pkPCS + ".verifyTCBSignature": {
			{call: pkPCS + ".(*SignatureECDSA_P256).UnmarshalHex", name: "signature decodes", why: "well-formed"},
			{cond: `^common/sgx/pcs\.\(\*SignatureECDSA_P256\)\.Verify\(.*,param:pk,.*\)$`, name: "ECDSA signature over the raw JSON", why: "signed by the TCB signing key"},
		},
		pkPCS + ".(*TCBInfo).validate": {
			{cond: `^\*param:ti\.Version == \d+$`, name: "version", why: "known format"},
			{cond: `^!time\.\(Time\)\.After\(.*Parse\(.*\)#0,param:ts\)$`, name: "issue date not in the future", why: "validity window start"},
			{cond: ` <= \(\(int64\(\*param:policy\.TCBValidityPeriod\) \* 24\) \* 3600000000000\)$`, name: "not expired", why: "validity window end"},
			{cond: `^\*param:ti\.TCBEvaluationDataNumber >= \*param:policy\.MinTCBEvaluationDataNumber$`, name: "evaluation number >= policy minimum", why: "policy"},
			{cond: `^!(slices\.Contains\(\*param:policy\.FMSPCBlacklist,\*param:ti\.FMSPC\)|common/sgx/pcs\.containsFMSPC\(\*param:policy\.FMSPCBlacklist,\*param:ti\.FMSPC\)|slices\.ContainsFunc\(\*param:policy\.FMSPCBlacklist,.*\))$`, name: "FMSPC not blacklisted", why: "policy"},
		},
		pkPCS + ".(*QEIdentity).validate": {
			{cond: `^\*param:qe\.Version == \d+$`, name: "version", why: "known format"},
			{cond: `^!time\.\(Time\)\.After\(.*Parse\(.*\)#0,param:ts\)$`, name: "issue date not in the future", why: "validity window start"},
			{cond: ` <= \(\(int64\(\*param:policy\.TCBValidityPeriod\) \* 24\) \* 3600000000000\)$`, name: "not expired", why: "validity window end"},
			{cond: `^\*param:qe\.TCBEvaluationDataNumber >= \*param:policy\.MinTCBEvaluationDataNumber$`, name: "evaluation number >= policy minimum", why: "policy"},
		},
		pkPCS + ".(*TCBInfo).validateFMSPC": {
			{cond: `^bytes\.Equal\(param:fmspc,encoding/hex\.DecodeString\(\*param:ti\.FMSPC\)#0\)$`, name: "FMSPC equals the PCK's", why: "collateral belongs to this platform"},
		},
		pkPCS + ".(*TCBInfo).validateTCBLevel": {
			{call: pkPCS + ".(*TCBInfo).getTCBLevel", name: "getTCBLevel", why: "a matching level exists"},
			{cond: `\.Status == (0|1|2|3|4|5|6|7)$`, name: "status is one of the accepted constants", why: "only UpToDate/SWHardeningNeeded (lax switch assumed off)"},
		},
		pkPCS + ".(*QEIdentity).verify": {
			{cond: ` == \*param:report\.mrSigner$`, name: "MRSIGNER", why: "QE signer"},
			{cond: `^\*param:qe\.ISVProdID == \*param:report\.isvProdID$`, name: "ISVProdID", why: "QE product"},
		},
	}
	var fns []string
	for f := range spec {
		fns = append(fns, f)
	}
	sortStrings(fns)
	for _, fnName := range fns {
		fn := c.needFn("C18.must", fnName)
		if fn == nil {
			continue
		}
		for _, ob := range spec[fnName] {
			if ob.call != "" {
				ev := CallsTo(fn, ob.name, ob.call, "")
				c.successOnlyVia("C18.must", fn, ev, ob.why)
			} else {
				c.SuccessRequiresCond("C18.must", fn, ob.name, ob.cond, ob.why)
			}
		}
	}
	// ---- node level: SGX attestation acceptance (common/node)
	const pkNode = "common/node"
	if fn := c.needFn("C18.node", pkNode+".(*SGXAttestation).Verify"); fn != nil {
		qv := CallsTo(fn, "sa.Quote.Verify", "common/sgx/quote.(*Quote).Verify", "")
		c.successOnlyVia("C18.node", fn, qv, "the quote must verify under the runtime's policy")
		for _, call := range qv.Calls() {
			a := allArgs(call)
			ok := len(a) == 3 && vstr(a[0]) == "param:sa.Quote" && vstr(a[1]) == "*param:sc.Policy" && vstr(a[2]) == "param:ts"
			c.Check(ok, "C18.node", fname(fn)+":Quote.Verify(sc.Policy, ts)", c.P.InstrPos(call), "the attestation's own quote is verified under the constraints' policy at the given time", "quote verification is not applied to (the attestation's quote, the constraints' policy, the given time)")
		}
		c.SuccessRequiresCond("C18.node", fn, "sc.ContainsEnclave(verifiedQuote.Identity)", `^common/node\.\(\*SGXConstraints\)\.ContainsEnclave\(param:sc,\*common/sgx/quote\.\(\*Quote\)\.Verify\(.*\)#0\.Identity\)$`, "the verified enclave identity must be one the runtime allows")
		c.SuccessRequiresCond("C18.node", fn, "HashRAK(rak) == reportData[:32]", `^common/crypto/hash\.\(\*Hash\)\.Equal\(&\(common/node\.HashRAK\(param:rak\)\),alloc:\*common/crypto/hash\.Hash\)$`, "the quote must commit to the node's RAK")
		// the hash compared is decoded from the verified quote's report data
		um := CallsTo(fn, "UnmarshalBinary", "common/crypto/hash.(*Hash).UnmarshalBinary", "")
		okU := len(um.Calls()) == 1 && strings.HasSuffix(vstr(allArgs(um.Calls()[0])[1]), ".Verify(param:sa.Quote,*param:sc.Policy,param:ts)#0.ReportData[:32]")
		eq := CallsTo(fn, "Equal", "common/crypto/hash.(*Hash).Equal", "")
		if okU && len(eq.Calls()) == 1 {
			okU = allArgs(um.Calls()[0])[0] == allArgs(eq.Calls()[0])[1]
			if okU {
				// filled before compared (the decode of a 32-byte slice cannot fail; its error is deliberately ignored)
				okU = Reach(fn, nil, nil, anyOf(eq.Ins), NewCut().AddInstr(um.Ins...)) == nil
			}
		}
		c.Check(okU, "C18.node", fname(fn)+":compared hash = verifiedQuote.ReportData[:32]", c.P.Pos(fn.Pos()), "the RAK hash is compared with the first 32 bytes of the verified quote's report data", "the value compared with HashRAK(rak) is not the first 32 bytes of the verified quote's report data")
		// signed attestations: success requires the feature to be off or the attestation signature to verify
		vs := CallsTo(fn, "verifyAttestationSignature", pkNode+".(*SGXAttestation).verifyAttestationSignature", "")
		if vs.Empty() {
			c.Fail("C18.node", fname(fn)+":SignedAttestations⇒signature", c.P.Pos(fn.Pos()), "verifyAttestationSignature is no longer called")
		} else {
			cut, _ := successCut(vs)
			cut.AddEdges(HeldEdges(fn, `^!\*phi\(global:common/node\.emptyFeatures\|param:cfg\)\.SGX\.SignedAttestations$`)...)
			for _, r := range Returns(fn) {
				cut.AddEdges(phiNonNilEdges(r)...)
			}
			hit := Reach(fn, nil, nil, anyOf(SuccessReturns(fn)), cut)
			c.Check(hit == nil, "C18.node", fname(fn)+":SignedAttestations⇒verifyAttestationSignature✓", c.P.InstrPos(vs.Ins[0]), "with signed attestations enabled success requires the attestation signature", "with signed attestations enabled the attestation can be accepted without its signature having been verified")
			a := allArgs(vs.Calls()[0])
			okA := len(a) == 7 && vstr(a[2]) == "param:rak" && vstr(a[3]) == "param:rek" && strings.HasSuffix(vstr(a[4]), "#0.ReportData") && vstr(a[5]) == "param:nodeID" && vstr(a[6]) == "param:height"
			c.Check(okA, "C18.node", fname(fn)+":signature over (verified report data, node id, rek) under rak", c.P.InstrPos(vs.Ins[0]), "the signature check receives the verified report data, the RAK/REK and the node id", "the attestation signature check is not given the verified quote's report data / rak / rek / node id / height")
			// the early (tail-call) success must itself come after the binding checks: every path to the call passes them
			c.DominatedByCond("C18.node", fn, "HashRAK(rak) == reportData[:32]", `^common/crypto/hash\.\(\*Hash\)\.Equal\(&\(common/node\.HashRAK\(param:rak\)\),alloc:\*common/crypto/hash\.Hash\)$`, vs, "the RAK binding is checked before the attestation signature made with that same RAK can end verification")
			c.DominatedByCond("C18.node", fn, "sc.ContainsEnclave(identity)", `^common/node\.\(\*SGXConstraints\)\.ContainsEnclave\(`, vs, "the enclave identity is checked before the attestation signature can end verification")
		}
	}
	if fn := c.needFn("C18.node", pkNode+".(*SGXAttestation).verifyAttestationSignature"); fn != nil {
		c.SuccessRequiresCond("C18.node", fn, "rak.Verify(ctx, HashAttestation(reportData,nodeID,sa.Height,rek), sa.Signature)", `^common/crypto/signature\.\(PublicKey\)\.Verify\(param:rak,\*global:common/node\.AttestationSignatureContext,common/node\.HashAttestation\(param:reportData,param:nodeID,\*param:sa\.Height,param:rek\),param:sa\.Signature\[:\]\)$`, "the attestation must be signed by the RAK over the report data, node id, height and REK")
		c.SuccessRequiresCond("C18.node", fn, "sa.Height <= height", `^\*param:sa\.Height <= param:height$`, "attestations from the future are rejected")
		c.SuccessRequiresCond("C18.node", fn, "height - sa.Height <= MaxAttestationAge", `^\(param:height - \*param:sa\.Height\) <= \*param:sc\.MaxAttestationAge$`, "stale attestations are rejected")
	}
	if fn := c.needFn("C18.node", pkNode+".(*CapabilityTEE).Verify"); fn != nil {
		sv := CallsTo(fn, "sa.Verify", pkNode+".(*SGXAttestation).Verify", "")
		c.successOnlyVia("C18.node", fn, sv, "a TEE capability verifies only through the attestation verification")
		for _, call := range sv.Calls() {
			a := allArgs(call)
			ok := len(a) == 8 && vstr(a[1]) == "param:teeCfg" && vstr(a[2]) == "param:ts" && vstr(a[3]) == "param:height" && strings.Contains(vstr(a[5]), "param:c.RAK") && strings.Contains(vstr(a[6]), "param:c.REK") && vstr(a[7]) == "param:nodeID"
			c.Check(ok, "C18.node", fname(fn)+":sa.Verify(cfg, ts, height, constraints, c.RAK, c.REK, nodeID)", c.P.InstrPos(call), "the capability's own RAK/REK and the node id are what is bound", "attestation verification is not given the capability's own RAK/REK / node id / time / height")
		}
		c.successOnlyVia("C18.node", fn, CallsTo(fn, "sc.ValidateBasic", pkNode+".(*SGXConstraints).ValidateBasic", ""), "constraints must be well-formed")
		c.successOnlyVia("C18.node", fn, CallsTo(fn, "sa.ValidateBasic", pkNode+".(*SGXAttestation).ValidateBasic", ""), "attestation version must be allowed")
	}
	if fn := c.needFn("C18.node", "common/sgx/quote.(*Quote).Verify"); fn != nil {
		ev := union("IAS.Open|PCS.Verify", CallsTo(fn, "", "common/sgx/ias.(*AVRBundle).Open", ""), CallsTo(fn, "", pkPCS+".(*QuoteBundle).Verify", ""))
		ev.Name, ev.Fn = "IAS.Open✓|PCS.Verify✓", fn
		c.successOnlyVia("C18.node", fn, ev, "a quote verifies only through the IAS or the PCS verifier")
		c.SuccessRequiresCond("C18.node", fn, "exactly one quote kind", `^common\.ExactlyOneTrue\(`, "ambiguous quotes are rejected")
	}

	// TDX branch of Quote.Verify: success with TeeType TDX requires policy.TDX != nil and TDX.Verify✓
	if fn := c.needFn("C18.must", pkPCS+".(*Quote).Verify"); fn != nil {
		tv := CallsTo(fn, "policy.TDX.Verify", pkPCS+".(*TdxQuotePolicy).Verify", "")
		tdxEdges := HeldEdges(fn, `TeeType\(.*\) == 129$`)
		if tv.Empty() || len(tdxEdges) == 0 {
			c.Fail("C18.must", fname(fn)+":TDX-policy", c.P.Pos(fn.Pos()), "TDX branch or TDX policy verification not found in Quote.Verify")
		} else {
			cut, _ := successCut(tv)
			cut.AddEdges(HeldEdges(fn, c.AssumeFalse)...)
			for _, r := range Returns(fn) {
				cut.AddEdges(phiNonNilEdges(r)...)
			}
			hit := Reach(fn, nil, tdxEdges, anyOf(SuccessReturns(fn)), cut)
			c.Check(hit == nil, "C18.must", fname(fn)+":TDX⇒policy.TDX.Verify✓", c.P.InstrPos(tv.Ins[0]), "a TDX quote is accepted only if the TDX policy verified", "a TDX quote can be accepted without the TDX policy having been verified")
			c.DominatedByCond("C18.must", fn, "policy.TDX != nil", `\.TDX != nil$`, tv, "TDX must be allowed by policy")
		}
		// returned identity comes from the signed report body
		sv := CallsTo(fn, "q.signature.Verify", pkPCS+".(QuoteSignature).Verify", "")
		for _, call := range sv.Calls() {
			a := allArgs(call)
			ok := len(a) >= 6 && vstr(a[1]) == "*param:q.header" && vstr(a[2]) == "*param:q.reportBody" && vstr(a[3]) == "param:ts" && vstr(a[4]) == "param:tcb"
			c.Check(ok, "C18.identity", fname(fn)+":signature-covers-own-header+report", c.P.InstrPos(call), "the quote's own header and report body are what is verified", "signature verification is not applied to the quote's own header/report body/time/collateral")
		}
		okId := false
		for _, b := range blocksIP(fn) {
			for _, in := range b.Instrs {
				st, ok := in.(*ssa.Store)
				if !ok {
					continue
				}
				fa, ok := st.Addr.(*ssa.FieldAddr)
				if !ok || !strings.HasSuffix(fieldKey(fa.X.Type(), fa.Field), "VerifiedQuote.Identity") {
					continue
				}
				okId = strings.Contains(vstr(st.Val), "*param:q.reportBody.AsEnclaveIdentity()")
			}
		}
		okRd := false
		for _, b := range blocksIP(fn) {
			for _, in := range b.Instrs {
				st, ok := in.(*ssa.Store)
				if !ok {
					continue
				}
				fa, ok := st.Addr.(*ssa.FieldAddr)
				if !ok || !strings.HasSuffix(fieldKey(fa.X.Type(), fa.Field), "VerifiedQuote.ReportData") {
					continue
				}
				okRd = strings.Contains(vstr(st.Val), "*param:q.reportBody.ReportData()")
			}
		}
		c.Check(okId && okRd, "C18.identity", fname(fn)+":result-from-signed-report", c.P.Pos(fn.Pos()), "identity and report data are read from the verified report body", "the returned identity/report data are not taken from the report body that was signature-verified")
	}
	// hash inputs
	hashWrites := func(fnName string) []string {
		fn := c.P.Fn(fnName)
		var out []string
		if fn == nil {
			return out
		}
		for _, call := range callsIn(fn) {
			if strings.HasSuffix(calleeName(call), "hash.(Hash).Write") || strings.HasSuffix(calleeName(call), ").Write") && strings.Contains(vstr(allArgs(call)[0]), "sha256.New") {
				out = append(out, vstr(allArgs(call)[1]))
			}
		}
		return out
	}
	w1 := hashWrites(pkPCS + ".(*QuoteSignatureECDSA_P256).Verify")
	c.Check(len(w1) == 2 && strings.Contains(w1[0], "param:header.Raw()") && strings.Contains(w1[1], "param:reportBody.Raw()"), "C18.identity", "quote-signature-digest=header.Raw‖reportBody.Raw", "", "signed digest covers exactly the raw header and raw report body", "the quote signature digest is not exactly header.Raw()‖reportBody.Raw(): "+strings.Join(w1, " ; "))
	w2 := hashWrites(pkPCS + ".(*CertificationData_QEReport).verify")
	c.Check(len(w2) == 2 && w2[0] == "param:attestationPublicKey" && strings.Contains(w2[1], "param:qe.AuthenticationData"), "C18.identity", "qe-report-data-digest=attKey‖authData", "", "QE report data digest covers attestation key and authentication data", "the QE report-data digest is not exactly attestationPublicKey‖AuthenticationData: "+strings.Join(w2, " ; "))
	// x509 options: roots = IntelTrustRoots, time = ts
	for _, fnName := range []string{pkPCS + ".(*CertificationData_QEReport).verifyCertificateChain", pkPCS + ".(*TCBBundle).getPublicKey"} {
		fn := c.P.Fn(fnName)
		if fn == nil {
			continue
		}
		roots, tm := false, false
		for _, b := range blocksIP(fn) {
			for _, in := range b.Instrs {
				st, ok := in.(*ssa.Store)
				if !ok {
					continue
				}
				fa, ok := st.Addr.(*ssa.FieldAddr)
				if !ok {
					continue
				}
				switch fieldKey(fa.X.Type(), fa.Field) {
				case "crypto/x509.VerifyOptions.Roots":
					roots = vstr(st.Val) == "*global:common/sgx/pcs.IntelTrustRoots"
				case "crypto/x509.VerifyOptions.CurrentTime":
					tm = vstr(st.Val) == "param:ts"
				}
			}
		}
		c.Check(roots && tm, "C18.must", fnName+":x509-options", c.P.Pos(fn.Pos()), "chains are verified against IntelTrustRoots at the supplied time", "x509 verification does not use IntelTrustRoots and the supplied verification time")
	}
	// unsafe switches
	for _, g := range []string{"unsafeSkipVerify", "unsafeAllowDebugEnclaves", "unsafeLaxVerify"} {
		c.WhoMayStoreGlobal(ix, "C18.who", pkPCS+"."+g, []string{pkPCS + ".SetSkipVerify", pkPCS + ".SetAllowDebugEnclaves", pkPCS + ".UnsetAllowDebugEnclaves", pkPCS + ".SetUnsafeLaxVerify", pkPCS + ".init"}, "unsafe switches have dedicated setters")
	}
	for _, s := range []string{"SetSkipVerify", "SetAllowDebugEnclaves", "SetUnsafeLaxVerify"} {
		c.WhoMayCall(ix, "C18.who", pkPCS+"."+s, []string{"oasis-node/cmd/", "oasis-test-runner/", "oasis-net-runner/", "common/sgx/", "runtime/host/tests/", "common/node/"}, "unsafe switches are set only by debug/test tooling")
	}
}

// c18Round2: a TDX module whose matched TCB level is not UpToDate is rejected (round 2).
// getTCBLevel, on the TDX branch, matches the TDX module's TCB level; every success return reached after that match
// (the matched level is not nil) must pass the edge on which its Status equals StatusUpToDate.
func c18Round2(c *Ctx) {
	const rule = "C18.must"
	fn := c.needFn(rule, "common/sgx/pcs.(*TCBInfo).getTCBLevel")
	if fn == nil {
		return
	}
	c.Analysed[fname(fn)] = true
	up, ok := c.ConstInt("common/sgx/pcs", "StatusUpToDate")
	inst := fname(fn) + ":TDX module level matched⇒status UpToDate"
	if !ok {
		c.Fail(rule, inst, c.P.Pos(fn.Pos()), "constant StatusUpToDate not found")
		return
	}
	// start: every place where the TCB levels of a TDX module identity are consulted (however the matching level is
	// then found: a loop with a nil test, an index search, a helper). From there on success needs the status test.
	var start []ssa.Instruction
	for _, b := range blocksIP(fn) {
		for _, in := range b.Instrs {
			switch x := in.(type) {
			case *ssa.FieldAddr:
				if fieldKey(x.X.Type(), x.Field) == "common/sgx/pcs.TDXModuleIdentity.TCBLevels" {
					start = append(start, in)
				}
			case *ssa.Field:
				if fieldKey(x.X.Type(), x.Field) == "common/sgx/pcs.TDXModuleIdentity.TCBLevels" {
					start = append(start, in)
				}
			}
		}
	}
	cut := NewCut()
	nG := 0
	for _, b := range blocksIP(fn) {
		ifi := lastIfOf(b)
		if ifi == nil {
			continue
		}
		for pol, idx := range map[bool]int{true: 0, false: 1} {
			s := normCond(ifi.Cond, pol)
			if strings.Contains(s, "TDXModuleIdentities") && strings.HasSuffix(s, ".Status == "+itoa(int(up))) {
				cut.AddEdges(Edge{b, idx})
				nG++
			}
		}
	}
	if len(start) == 0 {
		c.Fail(rule, inst, c.P.Pos(fn.Pos()), "the look-up of the TDX module's TCB levels (a read of TDXModuleIdentity.TCBLevels) was not found in getTCBLevel")
		return
	}
	var hit ssa.Instruction
	for _, st := range start {
		if hit = Reach(fn, st, nil, anyOf(SuccessReturns(fn)), cut); hit != nil {
			break
		}
	}
	site := c.P.Pos(fn.Pos())
	if hit != nil {
		site = c.P.InstrPos(hit)
	}
	c.Check(nG > 0 && hit == nil, rule, inst, site, "every success return after the TDX module's TCB levels were consulted passes Status == StatusUpToDate", "getTCBLevel can succeed for a TDX quote whose TDX module's matched TCB level is not UpToDate (OutOfDate, Revoked, …): a module that Intel's signed TCB info marks as vulnerable is accepted")
}

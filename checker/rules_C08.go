package main

import (
	"sort"
	"strings"

	"golang.org/x/tools/go/ssa"
)

func init() { register("C08", rulesC08) }

func rulesC08(c *Ctx) {
	c.Explain = append(c.Explain,
		"C08 (a failed transaction changes nothing but fee and nonce) — decided: (a) WTF, an interprocedural effect analysis over all module functions: for every transaction handler entry (ExecuteTx of every application, ExecuteMessage of every message subscriber) there is no path on which consensus state is written through the non-transactional context (mkvs.KeyValueTree mutators reached through state wrappers built from that context, committed child transactions, message publication) and afterwards an error that is not a storage failure is returned; writes through a context obtained from NewTransaction() are rolled back and do not count unless committed; mutations of objects held in the per-block context (ctx.BlockContext(), e.g. the set of runtimes to finalize in EndBlock) made by the applications count as writes that nothing rolls back, also inside a transaction context; (b) AuthenticateAndPayFees has no write-then-fail path at all (a transaction rejected at authentication changes nothing) and its writes are excluded in CheckTx/simulation; in processTx the only calls that may write before ExecuteTx are AuthenticateTx; (c) CheckTx/simulation contexts are built on trees other than the delivery tree.",
		"NOT decided: byte-identity of the post-state; that fee/nonce are charged exactly; panics after writes (C10); writes hidden behind reflection or non-module interfaces (assumed none).")
	w := newWTF(c.P)
	for k, v := range c.Table("wtf_storageonly") {
		w.storageOnly[k] = v
		c.Tabled("wtf_storageonly", k)
	}
	w.run()
	c08Round3(c)
	deliverContextRule(c, "C08.auth")
	c.Extra["wtf_functions"] = len(w.fns)
	nW, nDF, nNSF := 0, 0, 0
	for _, fn := range w.fns {
		if len(w.W[fn]) > 0 {
			nW++
		}
		if len(w.DF[fn]) > 0 {
			nDF++
		}
		if w.NSF[fn] {
			nNSF++
		}
	}
	c.Extra["wtf_writers"] = nW
	{
		var bw []string
		for _, fn := range w.fns {
			if len(w.WB[fn]) > 0 {
				bw = append(bw, fname(fn))
			}
		}
		sort.Strings(bw)
		c.Extra["wtf_block_context_writers"] = bw
	}
	c.Extra["wtf_may_fail_nonstorage"] = nNSF
	c.Extra["wtf_dirty_fail_functions"] = nDF

	// roots
	var roots []*ssa.Function
	for _, key := range []string{"consensus/cometbft/api.(Application).ExecuteTx", "consensus/cometbft/api.(Extension).ExecuteTx"} {
		for _, fn := range w.impls[key] {
			if fn.Blocks == nil || fn.Synthetic != "" {
				continue
			}
			pp := short(fpkgPath(fn))
			if !strings.HasPrefix(pp, "consensus/cometbft/apps/") {
				continue
			}
			roots = appendUniqueFn(roots, fn)
		}
	}
	sort.Slice(roots, func(i, j int) bool { return fname(roots[i]) < fname(roots[j]) })
	c.Floor("C08.wtf", len(roots), 8, "handler entry points (ExecuteTx/ExecuteMessage)")
	// the sanity of the write summary: known writers must be recognised
	for _, n := range []string{"consensus/cometbft/apps/staking/state.(*MutableState).SetAccount", "consensus/cometbft/apps/registry/state.(*MutableState).SetNode", "consensus/cometbft/apps/roothash/state.(*MutableState).SetEvidenceHash"} {
		fn := c.P.Fn(n)
		if fn == nil || !w.W[fn][0] {
			c.Undecided("C08.wtf", "summary:"+n, "", "write summary does not recognise a known state writer (engine or anchor problem)")
		}
	}
	wtfReportRoots(c, w, "C08.wtf", roots)
	// (b) authentication
	if fn := c.needFn("C08.auth", fnAuthPay); fn != nil {
		ok := len(w.DF[fn]) == 0
		detail := ""
		for _, sl := range sortedSlots(w.DF[fn]) {
			for _, lf := range w.leaves(fn, sl) {
				detail += strings.Join(lf.Text, " → ") + "; "
			}
		}
		c.Check(ok, "C08.auth", fnAuthPay+":no-write-then-fail", c.P.Pos(fn.Pos()), "a transaction rejected at authentication changes nothing", "authentication can fail after having written state: "+detail)
		c.Check(w.W[fn][0], "C08.auth", fnAuthPay+":writes-via-ctx", c.P.Pos(fn.Pos()), "fee/nonce write recognised", "fee/nonce write of AuthenticateAndPayFees not recognised (engine/anchor problem)")
	}
	// the declared fee is an input: authentication must not modify it (it is what gets charged,
	// reported in the event and accumulated for the block)
	if fn := c.needFn("C08.auth", fnAuthPay); fn != nil {
		bad := 0
		for _, call := range callsIn(fn) {
			n := calleeName(call)
			if !strings.HasPrefix(n, "common/quantity.") {
				continue
			}
			args := allArgs(call)
			var muts []ssa.Value
			switch {
			case n == "common/quantity.Move" || n == "common/quantity.MoveUpTo":
				muts = args[:2]
			case strings.HasPrefix(n, "common/quantity.(*Quantity).") && isQuantityMutator(n):
				muts = args[:1]
			}
			for _, m := range muts {
				for _, r := range Roots(m) {
					if r.Kind == "param" && r.Name == "fee" {
						bad++
						c.Fail("C08.auth", fnAuthPay+":fee-is-read-only", c.P.InstrPos(call), "the transaction's declared fee is modified in place by "+n+" (receiver/destination derives from parameter fee"+r.Path+"): the amount charged is no longer the declared fee")
					}
				}
			}
		}
		if bad == 0 {
			c.OK("C08.auth", fnAuthPay+":fee-is-read-only", c.P.Pos(fn.Pos()), "no quantity mutator has the declared fee as receiver/destination")
		}
	}
	if fn := c.needFn("C08.auth", fnProcessTx); fn != nil {
		exec := CallsTo(fn, "app.ExecuteTx", "consensus/cometbft/api.(Application).ExecuteTx", "")
		var bad []string
		for _, call := range callsIn(fn) {
			if len(w.writeOrigins(call)) == 0 {
				continue
			}
			n := calleeName(call)
			if n == "consensus/cometbft/api.(TransactionAuthHandler).AuthenticateTx" || n == "consensus/cometbft/api.(Application).ExecuteTx" || n == "consensus/cometbft/api.(TransactionAuthHandler).PostExecuteTx" || n == "consensus/cometbft/abci.(*abciMux).processSystemTx" {
				continue
			}
			for _, e := range exec.Ins {
				if Reach(fn, call, nil, isInstr(e), nil) != nil {
					bad = append(bad, n+"@"+c.P.InstrPos(call))
				}
			}
		}
		c.Check(len(bad) == 0, "C08.auth", fnProcessTx+":only-auth-writes-before-execute", c.P.Pos(fn.Pos()), "the only state-writing call before ExecuteTx is AuthenticateTx", "additional state-writing calls precede ExecuteTx: "+strings.Join(bad, ", "))
	}
}

func posOf(c *Ctx, wit *dfWitness) string {
	if wit.Fail != nil {
		return c.P.InstrPos(wit.Fail)
	}
	return ""
}

func isQuantityMutator(n string) bool {
	for _, m := range []string{"Add", "Sub", "SubUpTo", "Mul", "Quo", "FromBigInt", "FromInt64", "FromUint64", "UnmarshalBinary", "UnmarshalText", "UnmarshalCBOR", "UnmarshalJSON"} {
		if strings.HasSuffix(n, ")."+m) {
			return true
		}
	}
	return false
}

// wtfReportRoots reports, under the given rule name, every write-then-fail path of the given handler entry points
// (shared: C08 — a failed transaction changes nothing; C17 — a rejected registration leaves no record or stake claim).
func wtfReportRoots(c *Ctx, w *wtf, rule string, roots []*ssa.Function) {
	reported := map[string]bool{}
	for _, r := range roots {
		c.Analysed[fname(r)] = true
		slots := sortedSlots(w.DF[r])
		if len(slots) == 0 {
			c.OK(rule, fname(r), c.P.Pos(r.Pos()), "no write-then-fail path through the handler context")
			continue
		}
		clean := true
		for _, s := range slots {
			if s >= len(r.Params) {
				continue
			}
			for _, lf := range w.leaves(r, s) {
				wit := lf.Wit
				wdesc := "?"
				if wit.Write != nil {
					wdesc = callDesc(wit.Write)
				}
				why := strings.TrimPrefix(wit.Why, "error of ")
				if i := strings.Index(why, " ["); i > 0 {
					why = why[:i] // one finding per (function, write, failing step), whatever the sentinel
				}
				key := fname(lf.Fn) + " " + wdesc + "→" + why
				if reported[key] {
					if _, ok := c.Tabled("wtf", key); !ok {
						clean = false
					}
					continue
				}
				reported[key] = true
				if reason, ok := c.Tabled("wtf", key); ok {
					c.TabledOK(rule, key, posOf(c, wit), reason)
					continue
				}
				clean = false
				c.Fail(rule, key, posOf(c, wit), "failed transaction leaves state changed: "+strings.Join(lf.Text, " → "))
			}
		}
		if clean {
			c.OK(rule, fname(r), c.P.Pos(r.Pos()), "all write-then-fail paths are tabled (unreachable in a consistent state)")
		}
	}
}

package main

import (
	"go/constant"
	"go/token"
	"go/types"
	"sort"
	"strings"

	"golang.org/x/tools/go/ssa"
)

func init() { register("C20", rulesC20) }

const pkTxpool = "runtime/txpool"

func rulesC20(c *Ctx) {
	c.Explain = append(c.Explain,
		"C20 (runtime transaction pool) — decided: (a) the redundant indexes of the main-queue scheduler (hash map, per-sender heaps, min-priority heap, max-priority heap, per-pass schedule map) are mutated only by the designated mutators; (b) the three element mutators insert/remove/replace each update all of: hash map, sender heap, min heap, and (conditionally) max heap, so no index can drift; (c) every increment of a uint64 sequence number is dominated by a guard comparing that same value with math.MaxUint64, and no sequence number is compared with any other 'maximum' constant (the boundary the property names).",
		"NOT decided: equivalence with a reference model over operation histories, priority order, capacity behaviour.")
	ix := c.P.BuildIndex()
	S := pkTxpool + ".(*mainQueueScheduler)."
	// (a) WHO
	allowed := map[string][]string{
		"txs":       {S + "insert", S + "remove", S + "replace", S + "clear", pkTxpool + ".newMainQueueScheduler"},
		"senders":   {S + "add", S + "remove", S + "clear", pkTxpool + ".newMainQueueScheduler"},
		"minHeap":   {S + "clear", pkTxpool + ".newMainQueueScheduler"},
		"maxHeap":   {S + "clear", pkTxpool + ".newMainQueueScheduler"},
		"scheduled": {S + "scheduleOne", S + "reset", pkTxpool + ".newMainQueueScheduler"},
	}
	for _, f := range []string{"maxHeap", "minHeap", "scheduled", "senders", "txs"} {
		c.WhoMayStore(ix, "C20.who", pkTxpool+".mainQueueScheduler."+f, allowed[f], "index "+f+" is only rebuilt by its mutators")
	}
	// builtin delete / clear and heap method calls on the fields
	heapUsers := map[string][]string{
		"minHeap": {S + "insert", S + "remove", S + "replace", S + "trim", S + "clear"},
		"maxHeap": {S + "insert", S + "remove", S + "replace", S + "scheduleOne", S + "restoreMaxHeap", S + "clear"},
		"txs":     {S + "insert", S + "remove", S + "replace", S + "clear"},
		"senders": {S + "add", S + "remove", S + "clear"},
		"scheduled": {S + "scheduleOne", S + "reset"},
	}
	nMut := 0
	for _, fn := range c.P.FuncsInPkg(pkTxpool) {
		for _, call := range callsIn(fn) {
			n := calleeName(call)
			args := allArgs(call)
			if len(args) == 0 {
				continue
			}
			recv := vstr(args[0])
			field := ""
			for f := range heapUsers {
				if strings.HasSuffix(recv, "param:s."+f) || recv == "*param:s."+f || recv == "param:s."+f {
					field = f
				}
			}
			if field == "" || !strings.Contains(typeStr(args[0].Type()), "") {
				continue
			}
			mut := n == "builtin.delete" || n == "builtin.clear" ||
				strings.HasSuffix(n, "TxHeap).push") || strings.HasSuffix(n, "TxHeap).remove") || strings.HasSuffix(n, "TxHeap).replace")
			if !mut {
				continue
			}
			// only for the scheduler's own fields
			if !strings.Contains(fname(fn), "mainQueueScheduler") {
				continue
			}
			nMut++
			if !allowedFn(fn, heapUsers[field]) {
				c.Fail("C20.who", "mutation:"+field+"<-"+fname(fn), c.P.InstrPos(call), "index "+field+" is mutated ("+n+") outside its designated mutators {"+strings.Join(heapUsers[field], ", ")+"}")
			}
		}
	}
	c.Floor("C20.who", nMut, 12, "index mutation sites in the scheduler")
	c.OK("C20.who", "index-mutations-confined", "", itoa(nMut)+" delete/clear/heap push/remove/replace sites on scheduler indexes, all inside designated mutators")

	// (b) mutator completeness
	touch := func(fnName string) map[string]bool {
		out := map[string]bool{}
		fn := c.P.Fn(fnName)
		if fn == nil {
			return out
		}
		c.Analysed[fnName] = true
		for _, b := range fn.Blocks {
			for _, in := range b.Instrs {
				switch x := in.(type) {
				case *ssa.MapUpdate:
					if strings.HasSuffix(vstr(x.Map), "param:s.txs") {
						out["txs"] = true
					}
				case ssa.CallInstruction:
					n := calleeName(x)
					args := allArgs(x)
					if len(args) == 0 {
						continue
					}
					r := vstr(args[0])
					switch {
					case n == "builtin.delete" && strings.HasSuffix(r, "param:s.txs"):
						out["txs"] = true
					case strings.Contains(n, "(*senderTxHeap).") && (strings.HasSuffix(n, ".push") || strings.HasSuffix(n, ".remove") || strings.HasSuffix(n, ".replace")):
						out["senderHeap"] = true
					case strings.Contains(n, "(*minPriorityTxHeap).") && (strings.HasSuffix(n, ".push") || strings.HasSuffix(n, ".remove") || strings.HasSuffix(n, ".replace")):
						out["minHeap"] = true
					case strings.Contains(n, "(*maxPriorityTxHeap).") && (strings.HasSuffix(n, ".push") || strings.HasSuffix(n, ".remove") || strings.HasSuffix(n, ".replace")):
						out["maxHeap"] = true
					}
				}
			}
		}
		return out
	}
	want := []string{"maxHeap", "minHeap", "senderHeap", "txs"}
	for _, m := range []string{"insert", "remove", "replace"} {
		got := touch(S + m)
		var missing []string
		for _, w := range want {
			if !got[w] {
				missing = append(missing, w)
			}
		}
		sort.Strings(missing)
		c.Check(len(missing) == 0, "C20.sibling", S+m+":touches-all-indexes", "", m+" updates txs, sender heap, min heap and max heap", m+" no longer updates index(es) {"+strings.Join(missing, ",")+"}: the redundant indexes drift apart")
	}
	// max-heap membership is conditional on schedulability in insert, and on being pending in remove/replace
	if fn := c.needFn("C20.sibling", S+"insert"); fn != nil {
		push := CallsTo(fn, "maxHeap.push", pkTxpool+".(*maxPriorityTxHeap).push", "")
		c.DominatedByCond("C20.sibling", fn, "isSchedulable(tx)", `^runtime/txpool\.\(\*mainQueueScheduler\)\.isSchedulable\(param:s,param:tx,param:seqHeap\)$`, push, "only the sender's next schedulable transaction enters the max heap")
	}
	for _, m := range []string{"remove", "replace"} {
		if fn := c.needFn("C20.sibling", S+m); fn != nil {
			op := union("maxHeap op", CallsTo(fn, "", pkTxpool+".(*maxPriorityTxHeap).remove", ""), CallsTo(fn, "", pkTxpool+".(*maxPriorityTxHeap).replace", ""))
			op.Name, op.Fn = "maxHeap.remove/replace", fn
			c.DominatedByCond("C20.sibling", fn, "isPendingSchedule(old)", `^runtime/txpool\.isPendingSchedule\(param:(tx|old)\)$`, op, "a transaction is taken out of the max heap only if it is in it (index -1 otherwise)")
		}
	}

	// (c) overflow guards
	maxU := constant.MakeUint64(^uint64(0))
	nInc := 0
	for _, fn := range c.P.FuncsInPkg(pkTxpool) {
		if !strings.Contains(fname(fn), "mainQueueScheduler") && !strings.Contains(fname(fn), "senderTxHeap") {
			continue
		}
		for _, b := range fn.Blocks {
			for _, in := range b.Instrs {
				bo, ok := in.(*ssa.BinOp)
				if !ok {
					continue
				}
				isU64 := func(v ssa.Value) bool {
					bt, ok := v.Type().Underlying().(*types.Basic)
					return ok && bt.Kind() == types.Uint64
				}
				// comparisons of a sequence value with a "max" constant other than MaxUint64
				if _, cmp := negOp[bo.Op]; cmp {
					for _, pair := range [][2]ssa.Value{{bo.X, bo.Y}, {bo.Y, bo.X}} {
						k, isC := pair[1].(*ssa.Const)
						if !isC || k.Value == nil || k.Value.Kind() != constant.Int || !isU64(pair[0]) {
							continue
						}
						s := vstr(pair[0])
						if !(strings.HasSuffix(s, ".seq") || s == "param:seq" || strings.Contains(s, "scheduled[")) {
							continue
						}
						if v, exact := constant.Uint64Val(k.Value); exact && v >= 1<<31 && constant.Compare(k.Value, token.NEQ, maxU) {
							c.Fail("C20.overflow", fname(fn)+":seq-vs-wrong-max", c.P.InstrPos(in), "sequence number "+s+" (uint64) is compared with "+k.Value.ExactString()+" instead of math.MaxUint64: sequence numbers at or above that boundary are mishandled")
						}
					}
					continue
				}
				if bo.Op != token.ADD || !isU64(bo.X) {
					continue
				}
				if one, ok := constInt(bo.Y); !ok || one != 1 {
					continue
				}
				s := vstr(bo.X)
				if !(strings.HasSuffix(s, ".seq") || s == "param:seq" || strings.Contains(s, "scheduled[")) {
					continue
				}
				nInc++
				guarded := false
				for _, h := range heldCondVals(in) {
					hb, ok := h.Cond.(*ssa.BinOp)
					if !ok {
						continue
					}
					for _, pair := range [][2]ssa.Value{{hb.X, hb.Y}, {hb.Y, hb.X}} {
						k, isC := pair[1].(*ssa.Const)
						if !isC || k.Value == nil || !constant.Compare(k.Value, token.EQL, maxU) {
							continue
						}
						if vstr(pair[0]) != s {
							continue
						}
						// v < Max held true, v == Max held false, v != Max held true, v >= Max held false
						switch {
						case hb.Op == token.LSS && pair[0] == hb.X && h.Pol, hb.Op == token.EQL && !h.Pol, hb.Op == token.NEQ && h.Pol, hb.Op == token.GEQ && pair[0] == hb.X && !h.Pol, hb.Op == token.GTR && pair[0] == hb.Y && h.Pol:
							guarded = true
						}
					}
				}
				c.Check(guarded, "C20.overflow", fname(fn)+":"+s+"+1", c.P.InstrPos(in), "increment is dominated by a comparison of "+s+" with math.MaxUint64", "sequence increment "+s+"+1 is not guarded by a comparison of that value with math.MaxUint64 (wrap-around / wrong boundary)")
			}
		}
	}
	c.Floor("C20.overflow", nInc, 4, "sequence-number increments in the scheduler")
}

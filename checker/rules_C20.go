package main

import (
	"go/constant"
	"go/token"
	"go/types"
	"regexp"
	"sort"
	"strings"

	"golang.org/x/tools/go/ssa"
)

func init() { register("C20", rulesC20) }

const pkTxpool = "runtime/txpool"

func rulesC20(c *Ctx) {
	c.Explain = append(c.Explain,
		"C20 (runtime transaction pool) — decided: (a) the redundant indexes of the main-queue scheduler (hash map, per-sender heaps, min-priority heap, max-priority heap, per-pass schedule map) are mutated only by the designated mutators; (b) the three element mutators insert/remove/replace each update all of: hash map, sender heap, min heap, and (conditionally) max heap, so no index can drift; (c) every increment of a uint64 sequence number is dominated by a guard comparing that same value with math.MaxUint64, and no sequence number is compared with any other 'maximum' constant (the boundary the property names); (round 2) (d) only scheduleOne asks for a transaction's successor (nextSchedulable): seq+1 enters the schedule only because seq was handed out; (e) no transaction is inserted into a sender heap obtained before a call that can drop that sender's entry.",
		"NOT decided: equivalence with a reference model over operation histories, priority order, capacity behaviour.")
	ix := c.P.BuildIndex()
	S := pkTxpool + ".(*mainQueueScheduler)."
	// (a) WHO
	allowed := map[string][]string{
		"txs":       {S + "insert", S + "remove", S + "replace", S + "clear", pkTxpool + ".newMainQueueScheduler"},
		"senders":   {S + "add", S + "remove", S + "clear", pkTxpool + ".newMainQueueScheduler"},
		"minHeap":   {S + "clear", pkTxpool + ".newMainQueueScheduler"},
		"maxHeap":   {S + "clear", pkTxpool + ".newMainQueueScheduler"},
		"scheduled": {S + "scheduleOne", S + "reset", pkTxpool + ".newMainQueueScheduler"},
	}
	for _, f := range []string{"maxHeap", "minHeap", "scheduled", "senders", "txs"} {
		c.WhoMayStore(ix, "C20.who", pkTxpool+".mainQueueScheduler."+f, allowed[f], "index "+f+" is only rebuilt by its mutators")
	}
	// builtin delete / clear and heap method calls on the fields
	heapUsers := map[string][]string{
		"minHeap":   {S + "insert", S + "remove", S + "replace", S + "trim", S + "clear"},
		"maxHeap":   {S + "insert", S + "remove", S + "replace", S + "scheduleOne", S + "restoreMaxHeap", S + "forward", S + "clear"},
		"txs":       {S + "insert", S + "remove", S + "replace", S + "clear"},
		"senders":   {S + "add", S + "remove", S + "clear"},
		"scheduled": {S + "scheduleOne", S + "reset"},
	}
	nMut := 0
	for _, fn := range c.P.FuncsInPkg(pkTxpool) {
		for _, call := range callsIn(fn) {
			n := calleeName(call)
			args := allArgs(call)
			if len(args) == 0 {
				continue
			}
			recv := vstr(args[0])
			field := ""
			for f := range heapUsers {
				if strings.HasSuffix(recv, "param:s."+f) || recv == "*param:s."+f || recv == "param:s."+f {
					field = f
				}
			}
			if field == "" || !strings.Contains(typeStr(args[0].Type()), "") {
				continue
			}
			mut := n == "builtin.delete" || n == "builtin.clear" ||
				strings.HasSuffix(n, "TxHeap).push") || strings.HasSuffix(n, "TxHeap).remove") || strings.HasSuffix(n, "TxHeap).replace")
			if !mut {
				continue
			}
			// only for the scheduler's own fields
			if !strings.Contains(fname(fn), "mainQueueScheduler") {
				continue
			}
			nMut++
			if !allowedFn(fn, heapUsers[field]) {
				c.Fail("C20.who", "mutation:"+field+"<-"+fname(fn), c.P.InstrPos(call), "index "+field+" is mutated ("+n+") outside its designated mutators {"+strings.Join(heapUsers[field], ", ")+"}")
			}
		}
	}
	c.Floor("C20.who", nMut, 12, "index mutation sites in the scheduler")
	c.OK("C20.who", "index-mutations-confined", "", itoa(nMut)+" delete/clear/heap push/remove/replace sites on scheduler indexes, all inside designated mutators")

	// (b) mutator completeness
	touch := func(fnName string) map[string]bool {
		out := map[string]bool{}
		fn := c.P.Fn(fnName)
		if fn == nil {
			return out
		}
		c.Analysed[fnName] = true
		for _, b := range blocksIP(fn) {
			for _, in := range b.Instrs {
				switch x := in.(type) {
				case *ssa.MapUpdate:
					if strings.HasSuffix(vstr(x.Map), "param:s.txs") {
						out["txs"] = true
					}
				case ssa.CallInstruction:
					n := calleeName(x)
					args := allArgs(x)
					if len(args) == 0 {
						continue
					}
					r := vstr(args[0])
					switch {
					case n == "builtin.delete" && strings.HasSuffix(r, "param:s.txs"):
						out["txs"] = true
					case strings.Contains(n, "(*senderTxHeap).") && (strings.HasSuffix(n, ".push") || strings.HasSuffix(n, ".remove") || strings.HasSuffix(n, ".replace")):
						out["senderHeap"] = true
					case strings.Contains(n, "(*minPriorityTxHeap).") && (strings.HasSuffix(n, ".push") || strings.HasSuffix(n, ".remove") || strings.HasSuffix(n, ".replace")):
						out["minHeap"] = true
					case strings.Contains(n, "(*maxPriorityTxHeap).") && (strings.HasSuffix(n, ".push") || strings.HasSuffix(n, ".remove") || strings.HasSuffix(n, ".replace")):
						out["maxHeap"] = true
					}
				}
			}
		}
		return out
	}
	want := []string{"maxHeap", "minHeap", "senderHeap", "txs"}
	for _, m := range []string{"insert", "remove", "replace"} {
		got := touch(S + m)
		var missing []string
		for _, w := range want {
			if !got[w] {
				missing = append(missing, w)
			}
		}
		sort.Strings(missing)
		c.Check(len(missing) == 0, "C20.sibling", S+m+":touches-all-indexes", "", m+" updates txs, sender heap, min heap and max heap", m+" no longer updates index(es) {"+strings.Join(missing, ",")+"}: the redundant indexes drift apart")
	}
	// max-heap membership is conditional on schedulability in insert, and on being pending in remove/replace
	if fn := c.needFn("C20.sibling", S+"insert"); fn != nil {
		push := CallsTo(fn, "maxHeap.push", pkTxpool+".(*maxPriorityTxHeap).push", "")
		c.DominatedByCond("C20.sibling", fn, "isSchedulable(tx)", `^runtime/txpool\.\(\*mainQueueScheduler\)\.isSchedulable\(param:s,param:tx,param:seqHeap\)$`, push, "only the sender's next schedulable transaction enters the max heap")
	}
	for _, m := range []string{"remove", "replace"} {
		if fn := c.needFn("C20.sibling", S+m); fn != nil {
			op := union("maxHeap op", CallsTo(fn, "", pkTxpool+".(*maxPriorityTxHeap).remove", ""), CallsTo(fn, "", pkTxpool+".(*maxPriorityTxHeap).replace", ""))
			op.Name, op.Fn = "maxHeap.remove/replace", fn
			c.DominatedByCond("C20.sibling", fn, "isPendingSchedule(old)", `^runtime/txpool\.isPendingSchedule\(param:(tx|old)\)$`, op, "a transaction is taken out of the max heap only if it is in it (index -1 otherwise)")
		}
	}

	// (b') readiness: whoever moves a sender's current sequence re-evaluates which of its transactions is schedulable
	seqWriters := []string{pkTxpool + ".newSenderTxHeap", S + "forward"}
	c.WhoMayStore(ix, "C20.ready", pkTxpool+".senderTxHeap.seq", seqWriters, "the sender's current sequence decides which transaction is ready; only forward moves it")
	for _, s := range ix.FieldStores[pkTxpool+".senderTxHeap.seq"] {
		fn := s.Fn
		if fname(fn) == pkTxpool+".newSenderTxHeap" {
			continue
		}
		c.Analysed[fname(fn)] = true
		cut := NewCut()
		cut.AddInstr(CallsTo(fn, "isSchedulable", S+"isSchedulable", "").Ins...)
		cut.AddEdges(HeldEdges(fn, `^!runtime/txpool\.\(\*senderTxHeap\)\.peek\(.*\)#1$`)...)
		cut.AddEdges(HeldEdges(fn, `^runtime/txpool\.isPendingSchedule\(runtime/txpool\.\(\*senderTxHeap\)\.peek\(.*\)#0\)$`)...)
		hit := Reach(fn, s.In, nil, func(i ssa.Instruction) bool { _, r := i.(*ssa.Return); return r }, cut)
		site := c.P.InstrPos(s.In)
		if hit != nil {
			site = c.P.InstrPos(hit)
		}
		c.Check(hit == nil, "C20.ready", fname(fn)+":seq moved⇒head re-evaluated", site, "after moving the sender's sequence every return passes the schedulability re-evaluation of the sender's head (or finds the queue empty / the head already pending)", "after the sender's current sequence is moved the function can return without re-evaluating whether the sender's new first transaction is schedulable: it stays out of the max heap and is never scheduled (F7)")
		push := CallsTo(fn, "maxHeap.push", pkTxpool+".(*maxPriorityTxHeap).push", "")
		c.DominatedByCond("C20.ready", fn, "isSchedulable(head)", `^runtime/txpool\.\(\*mainQueueScheduler\)\.isSchedulable\(param:s,runtime/txpool\.\(\*senderTxHeap\)\.peek\(`, push, "only a schedulable head enters the max heap")
		c.DominatedByCond("C20.ready", fn, "!isPendingSchedule(head)", `^!runtime/txpool\.isPendingSchedule\(runtime/txpool\.\(\*senderTxHeap\)\.peek\(`, push, "a transaction already in the max heap is not pushed twice")
	}

	// (b2) in restoreMaxHeap the head put back into the max heap is the sender's current-sequence transaction
	if fn := c.needFn("C20.ready", S+"restoreMaxHeap"); fn != nil {
		eqRe := regexp.MustCompile(`^\*runtime/txpool\.\(\*senderTxHeap\)\.peek\(.*\)#0\.seq == \*\*param:s\.senders\[param:sender\]#0\.seq$`)
		n := 0
		for _, call := range callsIn(fn) {
			nm := calleeName(call)
			if nm != pkTxpool+".(*maxPriorityTxHeap).push" && nm != pkTxpool+".(*maxPriorityTxHeap).replace" {
				continue
			}
			v := allArgs(call)[1] // the element entering the heap
			n++
			ok := false
			why := ""
			held := func(at ssa.Instruction) bool {
				for _, h := range heldCondVals(at) {
					if matchEither(eqRe, normCond(h.Cond, h.Pol)) {
						return true
					}
				}
				return false
			}
			// value(v, at): v, used at instruction at, is nil or the sender heap's head under head.seq == seqHeap.seq.
			// A value produced by a new helper (ip.go) is judged at the helper's returns.
			var value func(v ssa.Value, at ssa.Instruction, d int) (bool, string)
			value = func(v ssa.Value, at ssa.Instruction, d int) (bool, string) {
				if isNilConst(v) {
					return true, ""
				}
				if d > 4 {
					return false, "value too deep to follow"
				}
				if phi, isPhi := v.(*ssa.Phi); isPhi {
					for i, e := range phi.Edges {
						if isNilConst(e) {
							continue
						}
						pred := phi.Block().Preds[i]
						onEdge := false
						if iff := lastIf(pred); iff != nil {
							// the condition holding on the edge pred→phi block itself
							for si, sb := range pred.Succs {
								if sb == phi.Block() && matchEither(eqRe, normCond(iff.Cond, si == 0)) {
									onEdge = true
								}
							}
						}
						if !onEdge && (len(pred.Instrs) == 0 || !held(pred.Instrs[len(pred.Instrs)-1])) {
							if cl, isCall := e.(*ssa.Call); !isCall || helperCallee(cl) == nil {
								return false, "the non-nil value " + vstrShort(e) + " reaches it from a block where `head.seq == seqHeap.seq` does not hold"
							}
						}
						if cl, isCall := e.(*ssa.Call); isCall && helperCallee(cl) != nil {
							if ok, why := value(e, cl, d+1); !ok {
								return false, why
							}
							continue
						}
						if !strings.Contains(vstr(e), "(*senderTxHeap).peek(") {
							return false, "the value is not the sender heap's head"
						}
					}
					return true, ""
				}
				if cl, isCall := v.(*ssa.Call); isCall {
					if h := helperCallee(cl); h != nil && h.Signature.Results().Len() == 1 {
						for _, r := range Returns(h) {
							if len(r.Results) != 1 {
								return false, "helper result not followed"
							}
							if ok, why := value(r.Results[0], r, d+1); !ok {
								return false, why
							}
						}
						return true, ""
					}
				}
				if held(at) && strings.Contains(vstr(v), "(*senderTxHeap).peek(") {
					return true, ""
				}
				return false, "not dominated by `head.seq == seqHeap.seq`"
			}
			ok, why = value(v, call, 0)
			c.Check(ok, "C20.ready", fname(fn)+":"+nm[len(pkTxpool)+1:]+"(head) only if head.seq == sender's current sequence", c.P.InstrPos(call), "the transaction restored into the max heap is the sender's head and only when its sequence equals the sender's current sequence", "a transaction can be restored into the max heap although it is not the sender's current-sequence transaction ("+why+"): it would be scheduled across a sequence gap")
		}
		c.Floor("C20.ready", n, 2, "max-heap insertions in restoreMaxHeap")
	}

	// (b3) heap discipline of the container/heap implementations
	for _, ht := range []struct {
		typ, idx, key string
		desc          bool
	}{
		{"minPriorityTxHeap", "minHeapIndex", "priority", false},
		{"maxPriorityTxHeap", "maxHeapIndex", "priority", true},
		{"seqNumTxHeap", "seqHeapIndex", "seq", false},
	} {
		T := pkTxpool + "." + ht.typ
		// comparator orientation
		if fn := c.needFn("C20.heap", pkTxpool+".("+ht.typ+").Less"); fn != nil {
			ok := false
			for _, r := range Returns(fn) {
				if bo, isB := r.Results[0].(*ssa.BinOp); isB {
					x, y := vstr(bo.X), vstr(bo.Y)
					xi := strings.Contains(x, "param:i") && strings.HasSuffix(x, "."+ht.key)
					yj := strings.Contains(y, "param:j") && strings.HasSuffix(y, "."+ht.key)
					xj := strings.Contains(x, "param:j") && strings.HasSuffix(x, "."+ht.key)
					yi := strings.Contains(y, "param:i") && strings.HasSuffix(y, "."+ht.key)
					// strict or not: ties may be ordered either way without changing which priority is at the root
					less := (xi && yj && (bo.Op == token.LSS || bo.Op == token.LEQ)) || (xj && yi && (bo.Op == token.GTR || bo.Op == token.GEQ))
					greater := (xi && yj && (bo.Op == token.GTR || bo.Op == token.GEQ)) || (xj && yi && (bo.Op == token.LSS || bo.Op == token.LEQ))
					ok = (ht.desc && greater) || (!ht.desc && less)
				}
			}
			dir := "ascending"
			if ht.desc {
				dir = "descending"
			}
			c.Check(ok, "C20.heap", T+".Less:"+dir+" "+ht.key, c.P.Pos(fn.Pos()), "Less orders by "+dir+" "+ht.key, "the comparator of "+ht.typ+" is not "+dir+" "+ht.key+": the heap root is no longer the element the scheduler relies on")
		}
		// Swap/Push/Pop keep the element's own index field
		for _, m := range []struct{ name, recv string }{{"Swap", "(" + ht.typ + ")"}, {"Push", "(*" + ht.typ + ")"}, {"Pop", "(*" + ht.typ + ")"}} {
			fn := c.needFn("C20.heap", pkTxpool+"."+m.recv+"."+m.name)
			if fn == nil {
				continue
			}
			var vals []string
			for _, b := range blocksIP(fn) {
				for _, in := range b.Instrs {
					if st, isSt := in.(*ssa.Store); isSt {
						if fa, isFa := st.Addr.(*ssa.FieldAddr); isFa && fieldName(fa.X.Type(), fa.Field) == ht.idx {
							vals = append(vals, vstr(fa.X)+"←"+vstr(st.Val))
						}
					}
				}
			}
			sort.Strings(vals)
			got := strings.Join(vals, "; ")
			ok := false
			switch m.name {
			case "Swap":
				ok = len(vals) == 2 && strings.Contains(got, "param:h[param:i]←param:i") && strings.Contains(got, "param:h[param:j]←param:j")
			case "Push":
				ok = len(vals) == 1 && strings.Contains(got, "←builtin.len(*param:h)")
			case "Pop":
				ok = len(vals) == 1 && strings.HasSuffix(got, "←-1")
			}
			c.Check(ok, "C20.heap", T+"."+m.name+":maintains "+ht.idx, c.P.Pos(fn.Pos()), "index field writes: "+got, m.name+" of "+ht.typ+" does not maintain "+ht.idx+" (writes: "+got+"): remove/replace would address the wrong slot")
		}
		// direct slot writes outside Swap/Pop are followed by heap.Fix/Init on every path
		for _, fn := range c.P.FuncsInPkg(pkTxpool) {
			if fn.Signature.Recv() == nil || !strings.Contains(typeStr(fn.Signature.Recv().Type()), ht.typ) {
				continue
			}
			if fn.Name() == "Swap" || fn.Name() == "Pop" || fn.Name() == "Push" {
				continue
			}
			for _, b := range blocksIP(fn) {
				for _, in := range b.Instrs {
					st, isSt := in.(*ssa.Store)
					if !isSt {
						continue
					}
					if _, isIA := st.Addr.(*ssa.IndexAddr); !isIA {
						continue
					}
					c.Analysed[fname(fn)] = true
					fix := union("heap.Fix|Init", CallsTo(fn, "", "container/heap.Fix", ""), CallsTo(fn, "", "container/heap.Init", ""))
					hit := Reach(fn, in, nil, func(i ssa.Instruction) bool { _, r := i.(*ssa.Return); return r }, NewCut().AddInstr(fix.Ins...))
					c.Check(hit == nil, "C20.heap", fname(fn)+":slot write⇒heap.Fix", c.P.InstrPos(in), "the heap order is restored after the direct slot write on every path", "a heap slot is overwritten and the function can return without heap.Fix/heap.Init: the heap order (root = lowest/highest) is lost")
				}
			}
		}
	}

	// (c) overflow guards
	maxU := constant.MakeUint64(^uint64(0))
	nInc := 0
	for _, fn := range c.P.FuncsInPkg(pkTxpool) {
		if !strings.Contains(fname(fn), "mainQueueScheduler") && !strings.Contains(fname(fn), "senderTxHeap") {
			continue
		}
		for _, b := range blocksIP(fn) {
			for _, in := range b.Instrs {
				bo, ok := in.(*ssa.BinOp)
				if !ok {
					continue
				}
				isU64 := func(v ssa.Value) bool {
					bt, ok := v.Type().Underlying().(*types.Basic)
					return ok && bt.Kind() == types.Uint64
				}
				// comparisons of a sequence value with a "max" constant other than MaxUint64
				if _, cmp := negOp[bo.Op]; cmp {
					for _, pair := range [][2]ssa.Value{{bo.X, bo.Y}, {bo.Y, bo.X}} {
						k, isC := pair[1].(*ssa.Const)
						if !isC || k.Value == nil || k.Value.Kind() != constant.Int || !isU64(pair[0]) {
							continue
						}
						s := vstr(pair[0])
						if !(strings.HasSuffix(s, ".seq") || s == "param:seq" || strings.Contains(s, "scheduled[")) {
							continue
						}
						if v, exact := constant.Uint64Val(k.Value); exact && v >= 1<<31 && constant.Compare(k.Value, token.NEQ, maxU) {
							c.Fail("C20.overflow", fname(fn)+":seq-vs-wrong-max", c.P.InstrPos(in), "sequence number "+s+" (uint64) is compared with "+k.Value.ExactString()+" instead of math.MaxUint64: sequence numbers at or above that boundary are mishandled")
						}
					}
					continue
				}
				if bo.Op != token.ADD || !isU64(bo.X) {
					continue
				}
				if one, ok := constInt(bo.Y); !ok || one != 1 {
					continue
				}
				s := vstr(bo.X)
				if !(strings.HasSuffix(s, ".seq") || s == "param:seq" || strings.Contains(s, "scheduled[")) {
					continue
				}
				nInc++
				guarded := false
				for _, h := range heldCondVals(in) {
					hb, ok := h.Cond.(*ssa.BinOp)
					if !ok {
						continue
					}
					for _, pair := range [][2]ssa.Value{{hb.X, hb.Y}, {hb.Y, hb.X}} {
						k, isC := pair[1].(*ssa.Const)
						if !isC || k.Value == nil || !constant.Compare(k.Value, token.EQL, maxU) {
							continue
						}
						if vstr(pair[0]) != s {
							continue
						}
						// v < Max held true, v == Max held false, v != Max held true, v >= Max held false
						switch {
						case hb.Op == token.LSS && pair[0] == hb.X && h.Pol, hb.Op == token.EQL && !h.Pol, hb.Op == token.NEQ && h.Pol, hb.Op == token.GEQ && pair[0] == hb.X && !h.Pol, hb.Op == token.GTR && pair[0] == hb.Y && h.Pol:
							guarded = true
						}
					}
				}
				c.Check(guarded, "C20.overflow", fname(fn)+":"+s+"+1", c.P.InstrPos(in), "increment is dominated by a comparison of "+s+" with math.MaxUint64", "sequence increment "+s+"+1 is not guarded by a comparison of that value with math.MaxUint64 (wrap-around / wrong boundary)")
			}
		}
	}
	c.Floor("C20.overflow", nInc, 4, "sequence-number increments in the scheduler")
	rulesC20Round2(c, ix)
	c20Round3(c, ix)
	c20Round4(c)
	rulesC20Round2b(c)
}

package main

import (
	"go/types"

	"golang.org/x/tools/go/ssa"
)

// Round-3 rules of C03 (written after seeds C03/7..9 were missed).
func rulesC03Round3(c *Ctx) {
	// (e) an accepted mutation reaches the structural update (shared with C02.mutate): a shortcut that answers
	// "nothing to do" from the pending write log makes Get return absence after Insert(k, empty).
	treeMutateRules(c, "C03.mutate")

	// (f) overlays never share their pending state: no treeOverlay is copied by value (the struct holds the dirty map
	// and the pending btree by reference), and Copy gives the copy a fresh dirty map.
	const rule = "C03.overlay"
	nCopy := 0
	for _, fn := range c.P.FuncsInPkg("storage/mkvs") {
		for _, b := range fn.Blocks {
			for _, in := range b.Instrs {
				u, ok := in.(*ssa.UnOp)
				if !ok || namedOf(u.Type()) != "storage/mkvs.treeOverlay" {
					continue
				}
				if _, isStruct := u.Type().Underlying().(*types.Struct); !isStruct {
					continue
				}
				// a by-value copy is harmless only if the copy then gets a dirty map of its own
				fresh := false
				for _, st := range StoresTo(fn, "", "storage/mkvs.treeOverlay.dirty").Ins {
					if _, ok := st.(*ssa.Store).Val.(*ssa.MakeMap); ok {
						fresh = true
					}
				}
				if fresh {
					continue
				}
				nCopy++
				c.Fail(rule, fname(fn)+":treeOverlay copied by value", c.P.InstrPos(in), "a treeOverlay is copied by value and the copy is not given a dirty map of its own: it shares the dirty-key map with the original, so a removal or overwrite in one overlay hides the inner tree's key in the other")
			}
		}
	}
	if nCopy == 0 {
		c.OK(rule, "storage/mkvs:no treeOverlay copied by value without a fresh dirty map", "", "no function of storage/mkvs loads a whole treeOverlay struct (or it stores a new dirty map into the copy)")
	}
	if fn := c.needFn(rule, "storage/mkvs.(*treeOverlay).Copy"); fn != nil {
		c.Analysed[fname(fn)] = true
		fresh, other := 0, 0
		var site ssa.Instruction
		for _, st := range StoresTo(fn, "", "storage/mkvs.treeOverlay.dirty").Ins {
			if _, ok := st.(*ssa.Store).Val.(*ssa.MakeMap); ok {
				fresh++
			} else {
				other++
				site = st
			}
		}
		pos := c.P.Pos(fn.Pos())
		if site != nil {
			pos = c.P.InstrPos(site)
		}
		c.Check(fresh > 0, rule, fname(fn)+":the copy's dirty map is a fresh map", pos, "Copy stores a newly made map into the copy's dirty field", "the copy of an overlay does not get a dirty map of its own (no `dirty: make(...)` store, or a store of an existing map): the two overlays would share removals")
	}

	// (g) committing a transaction context always commits its overlay: in (*Context).Commit the only exit that does
	// not pass the overlay's Commit is the one taken when the context is not a transaction.
	if fn := c.needFn("C03.txctx", "consensus/cometbft/api.(*Context).Commit"); fn != nil {
		c.Analysed[fname(fn)] = true
		oc := CallsTo(fn, "state.Commit", "storage/mkvs.(OverlayTree).Commit", "")
		cut := NewCut().AddInstr(oc.Ins...)
		cut.AddEdges(HeldEdges(fn, `^!\*param:c\.isTransaction$`)...)
		var rets []ssa.Instruction
		for _, r := range Returns(fn) {
			rets = append(rets, r)
		}
		hit := Reach(fn, nil, nil, anyOf(rets), cut)
		pos := c.P.Pos(fn.Pos())
		if hit != nil {
			pos = c.P.InstrPos(hit)
		}
		c.Check(!oc.Empty() && hit == nil, "C03.txctx", fname(fn)+":transaction⇒overlay committed into the parent", pos, "every exit of Commit passes the overlay's Commit unless the context is not a transaction", "Commit of a transaction context can return without committing its overlay into the parent state (mode- or value-dependent shortcut): the enclosing context reads stale values after a nested transaction committed")
	}
}

package main

import (
	"go/types"

	"golang.org/x/tools/go/ssa"
)

// Round-3 rules of C03 (written after seeds C03/7..9 were missed).
func rulesC03Round3(c *Ctx) {
	// (e) an accepted mutation reaches the structural update (shared with C02.mutate): a shortcut that answers
	// "nothing to do" from the pending write log makes Get return absence after Insert(k, empty).
	treeMutateRules(c, "C03.mutate")

	// (f) overlays never share their pending state: no treeOverlay is copied by value (the struct holds the dirty map
	// and the pending btree by reference), and Copy gives the copy a fresh dirty map.
	const rule = "C03.overlay"
	nCopy := 0
	for _, fn := range c.P.FuncsInPkg("storage/mkvs") {
		for _, b := range blocksIP(fn) {
			for _, in := range b.Instrs {
				u, ok := in.(*ssa.UnOp)
				if !ok || namedOf(u.Type()) != "storage/mkvs.treeOverlay" {
					continue
				}
				if _, isStruct := u.Type().Underlying().(*types.Struct); !isStruct {
					continue
				}
				// a by-value copy is harmless only if the copy then gets a dirty map of its own
				fresh := false
				for _, st := range StoresTo(fn, "", "storage/mkvs.treeOverlay.dirty").Ins {
					if _, ok := st.(*ssa.Store).Val.(*ssa.MakeMap); ok {
						fresh = true
					}
				}
				if fresh {
					continue
				}
				nCopy++
				c.Fail(rule, fname(fn)+":treeOverlay copied by value", c.P.InstrPos(in), "a treeOverlay is copied by value and the copy is not given a dirty map of its own: it shares the dirty-key map with the original, so a removal or overwrite in one overlay hides the inner tree's key in the other")
			}
		}
	}
	if nCopy == 0 {
		c.OK(rule, "storage/mkvs:no treeOverlay copied by value without a fresh dirty map", "", "no function of storage/mkvs loads a whole treeOverlay struct (or it stores a new dirty map into the copy)")
	}
	if fn := c.needFn(rule, "storage/mkvs.(*treeOverlay).Copy"); fn != nil {
		c.Analysed[fname(fn)] = true
		fresh, other := 0, 0
		var site ssa.Instruction
		for _, st := range StoresTo(fn, "", "storage/mkvs.treeOverlay.dirty").Ins {
			if _, ok := st.(*ssa.Store).Val.(*ssa.MakeMap); ok {
				fresh++
			} else {
				other++
				site = st
			}
		}
		pos := c.P.Pos(fn.Pos())
		if site != nil {
			pos = c.P.InstrPos(site)
		}
		c.Check(fresh > 0, rule, fname(fn)+":the copy's dirty map is a fresh map", pos, "Copy stores a newly made map into the copy's dirty field", "the copy of an overlay does not get a dirty map of its own (no `dirty: make(...)` store, or a store of an existing map): the two overlays would share removals")
	}

	// (g) committing a transaction context always commits its overlay: in (*Context).Commit the only exit that does
	// not pass the overlay's Commit is the one taken when the context is not a transaction.
	if fn := c.needFn("C03.txctx", "consensus/cometbft/api.(*Context).Commit"); fn != nil {
		c.Analysed[fname(fn)] = true
		oc := CallsTo(fn, "state.Commit", "storage/mkvs.(OverlayTree).Commit", "")
		cut := NewCut().AddInstr(oc.Ins...)
		cut.AddEdges(HeldEdges(fn, `^!\*param:c\.isTransaction$`)...)
		var rets []ssa.Instruction
		for _, r := range Returns(fn) {
			rets = append(rets, r)
		}
		hit := Reach(fn, nil, nil, anyOf(rets), cut)
		pos := c.P.Pos(fn.Pos())
		if hit != nil {
			pos = c.P.InstrPos(hit)
		}
		c.Check(!oc.Empty() && hit == nil, "C03.txctx", fname(fn)+":transaction⇒overlay committed into the parent", pos, "every exit of Commit passes the overlay's Commit unless the context is not a transaction", "Commit of a transaction context can return without committing its overlay into the parent state (mode- or value-dependent shortcut): the enclosing context reads stale values after a nested transaction committed")
	}
}

// c03NilKey (F35): a nil key is the empty key. Leaf nodes loaded from the database always carry a non-nil key, Key.Equal
// tells nil from empty and the iterator uses a nil key for "not positioned"; Insert therefore never hands a possibly
// nil key slice on to doInsert (it normalises it, as it does for a nil value).
func c03NilKey(c *Ctx) {
	fn := c.needFn("C03.sibling", "storage/mkvs.(*tree).Insert")
	if fn == nil {
		return
	}
	var kp *ssa.Parameter
	for _, p := range fn.Params {
		if pname(p) == "key" {
			kp = p
		}
	}
	calls := findCalls(fn, "storage/mkvs.(*tree).doInsert")
	inst := fname(fn) + ":Insert(key=nil) is normalised to the empty key"
	if kp == nil || len(calls) == 0 {
		c.Fail("C03.sibling", inst, c.P.Pos(fn.Pos()), "key parameter or doInsert call not found (unresolved anchor)")
		return
	}
	ok := true
	site := c.P.InstrPos(calls[0])
	for _, call := range calls {
		args := call.Common().Args
		if len(args) < 2 {
			continue
		}
		k := args[len(args)-2]
		if !nonNilNormalised(k, kp, call) {
			ok = false
			site = c.P.InstrPos(call)
		}
	}
	c.Check(ok, "C03.sibling", inst, site, "the key handed to doInsert is the parameter only where it was tested non-nil (otherwise an empty slice)", "Insert hands its key parameter to doInsert without normalising nil to the empty key: until the leaf is reloaded from the database the nil key and the empty key are different keys (iteration skips the entry, Get([]byte{}) answers absence, Insert([]byte{}) after Insert(nil) panics) (F35)")
}

// nonNilNormalised: v is not the bare parameter p, or every way v can be p was taken under p != nil.
func nonNilNormalised(v ssa.Value, p *ssa.Parameter, at ssa.Instruction) bool {
	switch x := v.(type) {
	case *ssa.Parameter:
		if x != p {
			return true
		}
		for _, h := range heldCondVals(at) {
			if normCond(h.Cond, h.Pol) == "param:"+pname(p)+" != nil" {
				return true
			}
		}
		return false
	case *ssa.Phi:
		for i, e := range x.Edges {
			if e != ssa.Value(p) {
				if _, isPhi := e.(*ssa.Phi); isPhi && !nonNilNormalised(e, p, at) {
					return false
				}
				continue
			}
			pred := x.Block().Preds[i]
			iff := lastIfOf(pred)
			okEdge := false
			if iff != nil {
				for si, s := range pred.Succs {
					if s == x.Block() && normCond(iff.Cond, si == 0) == "param:"+pname(p)+" != nil" {
						okEdge = true
					}
				}
			}
			if !okEdge {
				return false
			}
		}
		return true
	case *ssa.Slice:
		return nonNilNormalised(x.X, p, at)
	case *ssa.ChangeType:
		return nonNilNormalised(x.X, p, at)
	case *ssa.Convert:
		return nonNilNormalised(x.X, p, at)
	}
	return true
}

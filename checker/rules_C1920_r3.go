package main

import (
	"regexp"
	"strings"

	"golang.org/x/tools/go/ssa"
)

// Round-3 rules of C19 and C20 (written after seeds C19/7 and C20/7..9 were missed; C19/8, C19/9 are reported by
// C19.verify / C19.bind).
func c19Round3(c *Ctx) {
	c19LightBlockHeight(c)
	c19NoBackwards(c)
	c19ResultFields(c)
	c19MetaTxSigned(c)
	c19MalformedResults(c)
	const pk = "consensus/cometbft/stateless"
	// the caches of verified hashes are filled only with what a verified header says: a value enters the results-hash
	// (state-root) cache only in resultsHash (stateRoot), and it is the success result of fetchResultsHash
	// (fetchStateRoot), which reads it from a light-client verified block. Anything else — e.g. the hash of results that
	// verifyBlockResults let through unverified at the latest height — poisons later verifications.
	for _, cc := range []struct{ cache, owner, fetch string }{
		{"resultsHashCache", pk + ".(*Core).resultsHash", "fetchResultsHash"},
		{"stateRootCache", pk + ".(*Core).stateRoot", "fetchStateRoot"},
	} {
		n := 0
		for _, fn := range c.P.FuncsInPkg(pk) {
			for _, call := range callsIn(fn) {
				if !strings.HasSuffix(calleeName(call), "cache/lru.(*Cache).Put") {
					continue
				}
				args := allArgs(call)
				if len(args) < 3 || !strings.HasSuffix(vstr(args[0]), "."+cc.cache) {
					continue
				}
				n++
				ok := fname(fn) == cc.owner && strings.Contains(vstr(args[2]), "."+cc.fetch+"(")
				c.Check(ok, "C19.state", fname(fn)+":"+cc.cache+" is filled only from "+cc.fetch, c.P.InstrPos(call), "the cached value is the result of "+cc.fetch+" (read from a light-client verified block)", "a value is put into "+cc.cache+" that does not come from "+cc.fetch+" (e.g. a hash computed from provider data that has only been checked against this very cache, or not at all at the latest height): later queries are verified against an unverified value and forged data is handed to the caller")
			}
		}
		if n == 0 {
			c.Fail("C19.state", pk+":"+cc.cache+" writers", "", "no Put into "+cc.cache+" found (unresolved anchor)")
		}
	}
}

// c19LightBlockHeight (F46): the light-block provider hands out a light block only if the height inside the signed
// header equals the requested height (the height of the response envelope is not covered by any signature).
func c19LightBlockHeight(c *Ctx) {
	fn := c.needFn("C19.verify", "consensus/cometbft/light.(*Provider).getLightBlock")
	if fn == nil {
		return
	}
	vb := Ev{Name: "clb.ValidateBasic(chainID)", Fn: fn}
	for _, call := range callsIn(fn) {
		if strings.HasSuffix(calleeName(call), "types.(LightBlock).ValidateBasic") || strings.HasSuffix(calleeName(call), "types.(*LightBlock).ValidateBasic") {
			vb.Ins = append(vb.Ins, call)
		}
	}
	c.successOnlyVia("C19.verify", fn, vb, "a light block is handed to the light client only after its own consistency check (validator set hash, commit for this header, chain id): backwards verification below the trust root only walks the header hash chain and binds neither the validator set nor the commit")
	c.SuccessRequiresCond("C19.verify", fn, "signed header height == requested height", `^\*+consensus/cometbft/light\.DecodeLightBlock\(.*\)#0\.SignedHeader\.Header\.Height == param:height$`, "a light block answered for another height (genuine and correctly signed, under an envelope with the requested height) is rejected; otherwise the stateless node serves the data of that other height")
}

// c19MalformedResults (F47): block results from the provider are rejected, not dereferenced, when they are malformed:
// a missing (null) transaction result fails NewBlockResultsMeta, and TransactionResultsFromCometBFT indexes the
// transactions only after it has established that there are as many results as transactions.
func c19MalformedResults(c *Ctx) {
	if fn := c.needFn("C19.verify", "consensus/cometbft/api.NewBlockResultsMeta"); fn != nil {
		c.Analysed[fname(fn)] = true
		es := HeldEdges(fn, `TxsResults\[.*\] == nil$`)
		ok := len(es) > 0
		if ok {
			// on that edge the function fails
			if Reach(fn, nil, es, anyOf(SuccessReturns(fn)), nil) != nil {
				// a loop: the success return is reachable from the loop head again; require that the edge's own block
				// ends in a failing return
				ok = false
				for _, e := range es {
					succ := e.From.Succs[e.Idx]
					if r, isRet := succ.Instrs[len(succ.Instrs)-1].(*ssa.Return); isRet {
						isSucc := false
						for _, sr := range SuccessReturns(fn) {
							if sr == ssa.Instruction(r) {
								isSucc = true
							}
						}
						if !isSucc {
							ok = true
						}
					}
				}
			}
		}
		c.Check(ok, "C19.verify", fname(fn)+":a missing transaction result is rejected", c.P.Pos(fn.Pos()), "a nil entry of TxsResults leads to an error return", "block results metadata with a null transaction result is accepted: hashing the results (verifyBlockResults) dereferences the nil entry and the stateless node panics on a provider response instead of rejecting it")
	}
	if fn := c.needFn("C19.verify", "consensus/cometbft/full.TransactionResultsFromCometBFT"); fn != nil {
		var idx []ssa.Instruction
		for _, b := range blocksIP(fn) {
			for _, in := range b.Instrs {
				if ia, ok := in.(*ssa.IndexAddr); ok && vstr(ia.X) == "param:txs" {
					idx = append(idx, in)
				}
			}
		}
		c.GuardedByAny("C19.verify", fn, "len(responses) == len(txs)", []string{`^builtin\.len\(param:responses\) == builtin\.len\(param:txs\)$`}, Ev{Name: "txs[idx]", Fn: fn, Ins: idx}, "the transactions are indexed by result position only when there are as many results as transactions (at the latest height the results are not verified and a provider can send surplus ones)")
	}
}

// c19MetaTxSigned (F50): the state root taken from a block's metadata transaction comes from a transaction whose
// signature was verified: stateRootFromMetaTx succeeds only through SignedTransaction.Open (a look-alike metadata
// transaction with an invalid signature is an ordinary failed transaction for the validators and may sit in a valid block).
func c19MetaTxSigned(c *Ctx) {
	fn := c.needFn("C19.state", "consensus/cometbft/stateless.stateRootFromMetaTx")
	if fn == nil {
		return
	}
	open := CallsTo(fn, "sigTx.Open", fnSTOpen, "")
	c.successOnlyVia("C19.state", fn, open, "the block metadata transaction a state root is read from is correctly signed")
}

// c19NoBackwards (F51): the light client is never asked to verify a height below its first trusted header. CometBFT's
// backwards verification returns the block it fetched first without comparing it with the header chain it then walks,
// so a provider's forged first answer is accepted; the lazily initialised client (through which every verification
// goes) delegates only for height <= 0 (latest), an empty store, or height >= first trusted height.
func c19NoBackwards(c *Ctx) {
	fn := c.needFn("C19.verify", "consensus/cometbft/light.(*lazyClient).VerifyLightBlockAtHeight")
	if fn == nil {
		return
	}
	var del []ssa.Instruction
	for _, call := range callsIn(fn) {
		if strings.HasSuffix(calleeName(call), "cometbft/light.(*Client).VerifyLightBlockAtHeight") {
			del = append(del, call)
		}
	}
	c.GuardedByAny("C19.verify", fn, "height >= first trusted height", []string{
		`^param:height <= 0$`,
		`FirstTrustedHeight\(.*\)#0 <= 0$`,
		`^.*FirstTrustedHeight\(.*\)#0 <= param:height$`,
	}, Ev{Name: "cometbft VerifyLightBlockAtHeight", Fn: fn, Ins: del}, "heights below the first trusted header are refused (they could only be verified backwards, which does not bind the returned block)")
}

func c20Round3(c *Ctx, ix *Index) {
	const pk = "runtime/txpool"
	// (a) the per-pass record of what has been handed out is forgotten only when a new pass starts: reset() is called
	// only by Schedule (a drain/re-add in the middle of a pass — a recheck — must keep it, clear() does).
	c.WhoMayCall(ix, "C20.who", pk+".(*mainQueueScheduler).reset", []string{pk + ".(*mainQueue).Schedule"}, "the record of transactions scheduled in the current pass is reset only at the start of a pass")

	// (b) senderTxHeap.replace: the old and the new transaction have the same sequence number, so the entry of the old
	// one is deleted from the seq→tx map before the new one is written (a delete after the write removes the new entry).
	if fn := c.needFn("C20.heap", pk+".(*senderTxHeap).replace"); fn != nil {
		c.Analysed[fname(fn)] = true
		var writes, deletes []ssa.Instruction
		for _, b := range blocksIP(fn) {
			for _, in := range b.Instrs {
				switch x := in.(type) {
				case *ssa.MapUpdate:
					if strings.HasSuffix(vstr(x.Map), ".txs") {
						writes = append(writes, in)
					}
				case ssa.CallInstruction:
					if calleeName(x) == "builtin.delete" {
						if a := allArgs(x); len(a) == 2 && strings.HasSuffix(vstr(a[0]), ".txs") {
							deletes = append(deletes, in)
						}
					}
				}
			}
		}
		inst := fname(fn) + ":the new transaction's map entry survives the removal of the old one"
		if len(writes) == 0 {
			c.Fail("C20.heap", inst, c.P.Pos(fn.Pos()), "replace does not write the new transaction into the seq→tx map")
		} else {
			ok := true
			site := c.P.InstrPos(writes[0])
			for _, w := range writes {
				if hit := Reach(fn, w, nil, anyOf(deletes), nil); hit != nil {
					ok = false
					site = c.P.InstrPos(hit)
				}
			}
			c.Check(ok, "C20.heap", inst, site, "no delete from the seq→tx map follows the write of the new transaction", "replace deletes the old transaction's entry from the seq→tx map after it has written the new one; both have the same sequence number, so the new entry is removed: the successor can no longer be found (nextSchedulable, restoreMaxHeap) and a further transaction with that sequence number is accepted as new regardless of priority")
		}
	}

	// (c) add() rejects a transaction as expired by comparing its sequence number with the sender's current sequence in
	// the pool (seqHeap.seq, which handleTxUsed/forward move on), not with the state sequence reported at check time:
	// every path that goes on to insert the transaction has passed tx.seq >= seqHeap.seq.
	if fn := c.needFn("C20.ready", pk+".(*mainQueueScheduler).add"); fn != nil {
		var ins []ssa.Instruction
		for _, call := range callsIn(fn) {
			n := calleeName(call)
			if strings.HasSuffix(n, "(*mainQueueScheduler).insert") || strings.HasSuffix(n, "(*mainQueueScheduler).replace") || strings.HasSuffix(n, "(*senderTxHeap).push") || strings.HasSuffix(n, "(*senderTxHeap).replace") {
				ins = append(ins, call)
			}
		}
		// the heap whose current sequence is compared is the heap the transaction goes into (however it was obtained:
		// a map look-up, a get-or-create helper), and it is the heap of the transaction's sender
		for _, in := range ins {
			call := in.(ssa.CallInstruction)
			var heap ssa.Value
			for _, a := range allArgs(call) {
				if strings.HasSuffix(typeStr(a.Type()), "txpool.senderTxHeap") {
					heap = a
					break
				}
			}
			if heap == nil {
				c.Fail("C20.ready", fname(fn)+":tx.seq >= seqHeap.seq⊢transaction inserted", c.P.InstrPos(in), "the sender heap the transaction is inserted into was not found among the arguments of "+calleeName(call))
				continue
			}
			hs := vstr(heap)
			c.Check(strings.Contains(hs, "*param:tx.sender"), "C20.ready", fname(fn)+":inserted into the heap of the transaction's sender", c.P.InstrPos(in), "the heap is obtained for tx.sender", "the sender heap a transaction is inserted into is not looked up by the transaction's sender ("+vstrShort(heap)+")")
			c.GuardedByAny("C20.ready", fn, "tx.seq >= seqHeap.seq", []string{`^\*param:tx\.seq >= \*+` + regexp.QuoteMeta(hs) + `\.seq$`}, Ev{Name: "transaction inserted", Fn: fn, Ins: []ssa.Instruction{in}}, "a transaction below the sender's current sequence in the pool is expired, whatever state sequence its check reported")
		}
	}
}

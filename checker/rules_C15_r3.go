package main

import (
	"strings"

	"golang.org/x/tools/go/ssa"
)

// Round-3 rules of C15 (written after seeds C15/7 and C15/9 were missed; C15/8 is reported by C15.order).
func c15Round3(c *Ctx) {
	const stPkg = "consensus/cometbft/apps/staking/state"
	// (a) a reward that is escrowed raises the value of every share in the pool; it counts as commission in full — and
	// is deposited for the account itself alone — only when the pool has no shares at all. Any other test (e.g. "the
	// account has no delegation of its own") hands the delegators' part of the reward to the account.
	if fn := c.needFn("C15.price", stPkg+".(*MutableState).TransferFromCommon"); fn != nil {
		c.Analysed[fname(fn)] = true
		var moved ssa.Value
		for _, call := range findCalls(fn, "common/quantity.MoveUpTo") {
			for _, v := range resultValues(call, 0) {
				moved = v
			}
		}
		all := Ev{Name: "com = transferred.Clone()", Fn: fn}
		for _, call := range findCalls(fn, "common/quantity.(*Quantity).Clone") {
			if args := allArgs(call); len(args) == 1 && moved != nil && sameValue(args[0], moved, 0) {
				all.Ins = append(all.Ins, call)
			}
		}
		c.GuardedByAny("C15.price", fn, "pool has no shares", []string{`^common/quantity\.\(\*Quantity\)\.IsZero\(.*\.Escrow\.Active\.TotalShares\)$`}, all, "the whole escrowed reward counts as commission only for a pool without shares; otherwise it must raise the value of the existing shares")
	}
	// (b) no stale account copies across the entries of the debonding queue (shared with C05.pair)
	staleAccountCopies(c, "C15.debond")
}

// staleAccountCopies: a function that stores accounts never keeps account copies it read from the state in a slice or a
// map to write them back later: a second copy of the same account, fetched on its own for another role (delegator vs
// escrow), is changed and stored in between, and writing the kept copy back wipes that change (a payout, a credit).
func staleAccountCopies(c *Ctx, rule string) {
	const stPkg = "consensus/cometbft/apps/staking/state"
	n, bad := 0, 0
	for _, fn := range c.P.ModFuncs {
		if fn.Blocks == nil || !strings.Contains(fname(fn), "consensus/cometbft/apps/") || strings.Contains(fname(fn), "/tests") {
			continue
		}
		writes := len(findCalls(fn, stPkg+".(*MutableState).SetAccount")) > 0
		for _, call := range findCalls(fn, stPkg+".(*ImmutableState).Account") {
			n++
			if !writes {
				continue
			}
			vals := resultValues(call, 0)
			// the copy may first go through a local variable
			var all []ssa.Value
			for _, v := range vals {
				all = append(all, v)
				all = append(all, throughLocals(v)...)
			}
			for _, v := range all {
				refs := v.Referrers()
				if refs == nil {
					continue
				}
				for _, r := range *refs {
					collected := false
					switch x := r.(type) {
					case *ssa.Store:
						if _, ok := x.Addr.(*ssa.IndexAddr); ok && x.Val == v {
							collected = true
						}
					case *ssa.MapUpdate:
						collected = x.Value == v
					}
					if collected {
						bad++
						c.Fail(rule, fname(fn)+":account copy collected", c.P.InstrPos(r), "an account read from the state is kept in a slice or map by a function that also stores accounts, instead of being changed and stored at once: another copy of the same account (fetched separately, e.g. as delegator) is stored in between and the kept copy overwrites it — a payout or credit is lost")
					}
				}
			}
		}
	}
	if bad == 0 {
		c.OK(rule, "consensus apps:no account copy is collected", "", itoa(n)+" Account() reads, none kept in a slice or map by a function that also stores accounts")
	}
	c.Floor(rule, n, 20, "Account() reads in the consensus applications")
}

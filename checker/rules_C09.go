package main

import (
	"go/constant"
	"go/types"
	"sort"
	"strings"

	"golang.org/x/tools/go/ssa"
)

func init() { register("C09", rulesC09) }

const (
	fnDecodeTx   = "consensus/cometbft/abci.(*abciMux).decodeTx"
	fnExecuteTx  = "consensus/cometbft/abci.(*abciMux).executeTx"
	fnProcessTx  = "consensus/cometbft/abci.(*abciMux).processTx"
	fnEstimate   = "consensus/cometbft/abci.(*abciMux).EstimateGas"
	fnSTOpen     = "consensus/api/transaction.(*SignedTransaction).Open"
	fnSignedOpen = "common/crypto/signature.(*Signed).Open"
	fnSigVerify  = "common/crypto/signature.(*Signature).Verify"
	fnPKVerify   = "common/crypto/signature.(PublicKey).Verify"
	fnAuthPay    = "consensus/cometbft/apps/staking/state.AuthenticateAndPayFees"
	fnCborUnm    = "common/cbor.Unmarshal"
)

func rulesC09(c *Ctx) {
	c09Batch(c)
	c09Round3(c)
	c09Round4(c)
	c09Envelope(c)
	c.Explain = append(c.Explain,
		"C09 (only authentic, correctly sequenced transactions execute, once) — decided: (a) decodeTx returns success only through: size guard (when a limit is configured) before decoding, envelope decode✓, SignedTransaction.Open✓ (= signature verification under transaction.SignatureContext, created WithChainSeparation, then body decode of exactly the signed blob), SanityCheck✓; the returned transaction is the one filled by Open; executeTx sets the signer from the verified envelope after decodeTx✓ and passes that transaction on; SetTxSigner is called only there and in simulation; (b) ExecuteTx is reachable only through AuthenticateTx✓ (or no handler / critical method; the set of critical methods is empty); (c) in AuthenticateAndPayFees every state write is dominated by the nonce-equality guard, the nonce is incremented exactly once and stored; writers of the nonce are confined; (d) PublicKey.Verify can return true only via the ed25519 verifier over PrepareSignerMessage(context,message) with strict small-order options; signature contexts are constant, pairwise distinct and prefix-free, none contains the chain separator; the chain context is set-once.",
		"NOT decided: cryptographic soundness of ed25519/SHA-512/256, nonce monotonicity across restarts/state sync, CometBFT-level replay protection.")
	ix := c.P.BuildIndex()

	// ---- (a) decodeTx
	if fn := c.needFn("C09.decode", fnDecodeTx); fn != nil {
		unm := CallsTo(fn, "cbor.Unmarshal(envelope)", fnCborUnm, "")
		open := CallsTo(fn, "sigTx.Open", fnSTOpen, "")
		sanity := CallsTo(fn, "tx.SanityCheck", "consensus/api/transaction.(*Transaction).SanityCheck", "")
		c.SuccessRequiresEdges("C09.decode", fn, "cbor.Unmarshal✓", mustSuccessEdges(unm), "envelope must decode")
		c.SuccessRequiresEdges("C09.decode", fn, "SignedTransaction.Open✓", mustSuccessEdges(open), "a transaction is returned only if its signature verified")
		c.SuccessRequiresEdges("C09.decode", fn, "SanityCheck✓", mustSuccessEdges(sanity), "basic validity")
		c.DominatedBySentinelGuard("C09.decode", fn, GuardSpec{"consensus/api.ErrOversizedTx", []string{`MaxTxSize < uint64\(builtin\.len\(param:rawTx\)\)$ && MaxTxSize > 0$`}, "oversized transactions are rejected before decoding"}, unm)
		// Open receives the decoded envelope and the tx that is returned
		for _, call := range open.Calls() {
			args := allArgs(call)
			c.Check(len(args) == 2, "C09.decode", fnDecodeTx+":Open-args", c.P.InstrPos(call), "", "unexpected arity")
			// returned tx is args[1]
			okRet := false
			for _, r := range SuccessReturns(fn) {
				ret := r.(*ssa.Return)
				if len(ret.Results) >= 2 && unspill(ret.Results[0]) == args[1] && unspill(ret.Results[1]) == args[0] {
					okRet = true
				}
			}
			c.Check(okRet, "C09.decode", fnDecodeTx+":returns-opened-tx", c.P.InstrPos(call), "the transaction and envelope returned are exactly the ones verified by Open", "decodeTx returns a transaction/envelope other than the ones passed through Open")
			// unmarshal target is the envelope opened
			for _, u := range unm.Calls() {
				ua := allArgs(u)
				inner := ua[1]
				if mi, ok := inner.(*ssa.MakeInterface); ok {
					inner = mi.X
				}
				c.Check(vstr(ua[0]) == "param:rawTx" && inner == args[0], "C09.decode", fnDecodeTx+":envelope-from-rawTx", c.P.InstrPos(u), "envelope decoded from the raw bytes is the one opened", "the opened envelope is not the one decoded from rawTx")
			}
		}
		// no other body decode in the abci package bypassing Open
		n := 0
		for _, s := range ix.Calls[fnCborUnm] {
			if short(fpkgPath(s.Fn)) != "consensus/cometbft/abci" {
				continue
			}
			args := allArgs(s.In.(ssa.CallInstruction))
			if strings.Contains(vstr(args[0]), ".Blob") {
				n++
				c.Fail("C09.decode", "abci:blob-decoded-outside-Open<-"+fname(s.Fn), c.P.InstrPos(s.In), "a signed blob is decoded in the ABCI package without going through Open (signature bypass)")
			}
		}
		if n == 0 {
			c.OK("C09.decode", "abci:no-blob-decode-outside-Open", "", "no cbor.Unmarshal of a Signed.Blob in consensus/cometbft/abci")
		}
	}
	if fn := c.needFn("C09.decode", fnSTOpen); fn != nil {
		so := CallsTo(fn, "Signed.Open", fnSignedOpen, "")
		ok := false
		for _, call := range so.Calls() {
			args := allArgs(call)
			if strings.Contains(vstr(args[1]), "global:consensus/api/transaction.SignatureContext") && vstr(args[0]) == "param:s.Signed" {
				ok = len(errorReturnedDirectly(call)) > 0
			}
		}
		c.Check(ok, "C09.decode", fnSTOpen+":Signed.Open(SignatureContext)", c.P.Pos(fn.Pos()), "opens its own Signed under transaction.SignatureContext and returns that result", "SignedTransaction.Open does not (only) return Signed.Open(SignatureContext, tx) on its own envelope")
	}
	if fn := c.needFn("C09.decode", fnSignedOpen); fn != nil {
		unm := CallsTo(fn, "cbor.Unmarshal(s.Blob)", fnCborUnm, "")
		c.DominatedByCond("C09.decode", fn, "Signature.Verify(context,s.Blob)", `^common/crypto/signature\.\(\*Signature\)\.Verify\(param:s\.Signature,param:context,\*param:s\.Blob\)$`, unm, "the blob is decoded only after its signature verified under the given context")
		for _, u := range unm.Calls() {
			c.Check(vstr(allArgs(u)[0]) == "*param:s.Blob", "C09.decode", fnSignedOpen+":decodes-signed-bytes", c.P.InstrPos(u), "decodes exactly the signed bytes", "Signed.Open decodes bytes other than the signed blob")
		}
		c.SuccessRequiresCond("C09.decode", fn, "Signature.Verify true", `^common/crypto/signature\.\(\*Signature\)\.Verify\(param:s\.Signature,param:context,\*param:s\.Blob\)$`, "no success without a verified signature")
	}
	if fn := c.needFn("C09.verify", fnSigVerify); fn != nil {
		ok := false
		for _, r := range Returns(fn) {
			s := vstr(r.Results[0])
			if strings.HasPrefix(s, fnPKVerify+"(") && strings.Contains(s, "param:context") && strings.Contains(s, "param:message") && strings.Contains(s, "param:s.Signature") && strings.Contains(s, "param:s.PublicKey") {
				ok = true
			} else {
				ok = false
				break
			}
		}
		c.Check(ok, "C09.verify", fnSigVerify+":delegates", c.P.Pos(fn.Pos()), "verifies with its own public key and signature over (context,message)", "Signature.Verify does not delegate to PublicKey.Verify(context,message,own signature)")
	}
	if fn := c.needFn("C09.verify", fnPKVerify); fn != nil {
		okAll := true
		nTrue := 0
		for _, r := range Returns(fn) {
			v := r.Results[0]
			if k, isC := v.(*ssa.Const); isC && k.Value != nil && k.Value.Kind() == constant.Bool && !constant.BoolVal(k.Value) {
				continue
			}
			nTrue++
			s := vstr(v)
			want := []string{"VerifyWithOptions(", "common/crypto/signature.PrepareSignerMessage(param:context,param:message)#0", "param:sig", "global:common/crypto/signature.defaultOptions"}
			for _, w := range want {
				if !strings.Contains(s, w) {
					okAll = false
					c.Fail("C09.verify", fnPKVerify+":true-only-via-ed25519", c.P.InstrPos(r), "PublicKey.Verify can return a value other than false that is not the ed25519 verification of PrepareSignerMessage(context,message) with the default options (missing "+w+"): "+s)
				}
			}
		}
		if okAll && nTrue > 0 {
			c.OK("C09.verify", fnPKVerify+":true-only-via-ed25519", c.P.Pos(fn.Pos()), "the only non-false result is the ed25519 verifier over PrepareSignerMessage(context,message), sig, defaultOptions")
		}
		psm := CallsTo(fn, "PrepareSignerMessage", "common/crypto/signature.PrepareSignerMessage", "")
		c.SuccessRequiresEdgesBool("C09.verify", fn, "PrepareSignerMessage✓", mustSuccessEdges(psm))
	}
	// strict small-order options: no `true` stored into AllowSmallOrderA/R anywhere in the signature package
	{
		bad := 0
		for _, f := range []string{"AllowSmallOrderA", "AllowSmallOrderR"} {
			for _, s := range ix.FieldStores["github.com/oasisprotocol/curve25519-voi/primitives/ed25519.VerifyOptions."+f] {
				st := s.In.(*ssa.Store)
				if k, ok := st.Val.(*ssa.Const); ok && k.Value != nil && k.Value.Kind() == constant.Bool && !constant.BoolVal(k.Value) {
					continue
				}
				if !strings.HasPrefix(short(fpkgPath(s.Fn)), "common/crypto/signature") {
					continue
				}
				bad++
				c.Fail("C09.verify", "signature.defaultOptions:"+f, c.P.InstrPos(s.In), "signature verification options allow small-order points ("+f+"): a fixed signature would verify for every message under a small-order key")
			}
		}
		if bad == 0 {
			c.OK("C09.verify", "signature.defaultOptions:small-order-rejected", "", "AllowSmallOrderA/R are never enabled in common/crypto/signature")
		}
	}
	if fn := c.needFn("C09.verify", "common/crypto/signature.PrepareSignerMessage"); fn != nil {
		// hash input = context bytes then message
		var writes []string
		for _, call := range callsIn(fn) {
			if strings.HasSuffix(calleeName(call), ".Write") {
				writes = append(writes, vstr(allArgs(call)[1]))
			}
		}
		ok := len(writes) == 2 && strings.Contains(writes[0], "PrepareSignerContext(param:context)#0") && writes[1] == "param:message"
		c.Check(ok, "C09.verify", "signature.PrepareSignerMessage:H(context‖message)", c.P.Pos(fn.Pos()), "digest input is exactly prepared-context then message", "PrepareSignerMessage no longer hashes exactly (prepared context, message): "+strings.Join(writes, " ; "))
		pc := CallsTo(fn, "PrepareSignerContext", "common/crypto/signature.PrepareSignerContext", "")
		c.SuccessRequiresEdges("C09.verify", fn, "PrepareSignerContext✓", mustSuccessEdges(pc), "unregistered / chain-less contexts are rejected")
	}

	// ---- executeTx
	if fn := c.needFn("C09.exec", fnExecuteTx); fn != nil {
		dec := CallsTo(fn, "decodeTx", fnDecodeTx, "")
		set := CallsTo(fn, "SetTxSigner", "consensus/cometbft/api.(*Context).SetTxSigner", "")
		proc := CallsTo(fn, "processTx", fnProcessTx, "")
		c.MustPrecede("C09.exec", fn, dec, set, "signer is set only from a verified envelope")
		c.MustPrecede("C09.exec", fn, dec, proc, "only verified transactions are processed")
		c.MustPrecede("C09.exec", fn, set, proc, "the authenticated signer is set before processing")
		for _, call := range set.Calls() {
			s := vstr(allArgs(call)[1])
			c.Check(strings.HasPrefix(s, "*"+fnDecodeTx+"(") && (strings.HasSuffix(s, ")#1.Signed.Signature.PublicKey") || strings.HasSuffix(s, ")#1.Signature.PublicKey")), "C09.exec", fnExecuteTx+":signer=envelope.PublicKey", c.P.InstrPos(call), "signer is the verified envelope's public key", "tx signer is set to {"+s+"} rather than the verified envelope's public key")
		}
		for _, call := range proc.Calls() {
			s := vstr(allArgs(call)[2])
			c.Check(strings.HasPrefix(s, fnDecodeTx+"(") && strings.HasSuffix(s, ")#0"), "C09.exec", fnExecuteTx+":processes-verified-tx", c.P.InstrPos(call), "the processed transaction is decodeTx's result", "processTx receives {"+s+"} instead of the verified transaction")
		}
	}
	c.WhoMayCall(ix, "C09.exec", "consensus/cometbft/api.(*Context).SetTxSigner", []string{fnExecuteTx, fnEstimate}, "the transaction signer is only ever taken from a verified envelope (or the simulation caller)")
	c.WhoMayStore(ix, "C09.exec", "consensus/cometbft/api.Context.txSigner", []string{"consensus/cometbft/api.(*Context).SetTxSigner", "consensus/cometbft/api.(*Context).NewTransaction", "consensus/cometbft/api.(*Context).WithCallerAddress", "consensus/cometbft/api.(*Context).WithSimulation", "consensus/cometbft/api.(*Context).WithMessageExecution", "consensus/cometbft/api.(*Context).NewChild"}, "signer field writers")

	// ---- (b) processTx
	if fn := c.needFn("C09.auth", fnProcessTx); fn != nil {
		auth := CallsTo(fn, "AuthenticateTx", "consensus/cometbft/api.(TransactionAuthHandler).AuthenticateTx", "")
		exec := CallsTo(fn, "app.ExecuteTx", "consensus/cometbft/api.(Application).ExecuteTx", "")
		inst := fnProcessTx + ":AuthenticateTx✓≺ExecuteTx"
		if auth.Empty() || exec.Empty() {
			c.Fail("C09.auth", inst, c.P.Pos(fn.Pos()), "AuthenticateTx / ExecuteTx not found in processTx")
		} else {
			cut, _ := successCut(auth)
			cut.AddEdges(HeldEdges(fn, `txAuthHandler == nil$`)...)
			cut.AddEdges(HeldEdges(fn, `^consensus/api/transaction\.\(MethodName\)\.IsCritical\(`)...)
			hit := Reach(fn, nil, nil, anyOf(exec.Ins), cut)
			c.Check(hit == nil, "C09.auth", inst, c.P.InstrPos(exec.Ins[0]), "ExecuteTx is reachable only after AuthenticateTx succeeded (or no handler / critical method)", "ExecuteTx is reachable without authentication (nonce/fee check) having succeeded")
			for _, call := range auth.Calls() {
				s := vstr(allArgs(call)[2])
				c.Check(s == "param:tx", "C09.auth", fnProcessTx+":authenticates-this-tx", c.P.InstrPos(call), "", "AuthenticateTx is called on a different transaction: "+s)
			}
			for _, call := range exec.Calls() {
				s := vstr(allArgs(call)[2])
				c.Check(s == "param:tx", "C09.auth", fnProcessTx+":executes-this-tx", c.P.InstrPos(call), "", "ExecuteTx is called on a different transaction: "+s)
			}
		}
	}
	// critical methods: implementers of MethodMetadataProvider (today none)
	{
		var impls []string
		if pk := c.P.Pkg("consensus/api/transaction"); pk != nil {
			if obj := pk.Types.Scope().Lookup("MethodMetadataProvider"); obj != nil {
				iface, _ := obj.Type().Underlying().(*types.Interface)
				for _, p := range c.P.Pkgs {
					sc := p.Types.Scope()
					for _, n := range sc.Names() {
						tn, ok := sc.Lookup(n).(*types.TypeName)
						if !ok || tn.IsAlias() {
							continue
						}
						if _, isI := tn.Type().Underlying().(*types.Interface); isI {
							continue
						}
						if iface != nil && (types.Implements(tn.Type(), iface) || types.Implements(types.NewPointer(tn.Type()), iface)) {
							impls = append(impls, short(p.PkgPath)+"."+n)
						}
					}
				}
			} else {
				c.Undecided("C09.auth", "anchor:MethodMetadataProvider", "", "interface not found")
			}
		}
		sort.Strings(impls)
		var bad []string
		for _, i := range impls {
			if _, ok := c.Tabled("c09_critical", i); !ok {
				bad = append(bad, i)
			}
		}
		c.Check(len(bad) == 0, "C09.auth", "critical-methods", "", "transaction body types providing method metadata (may bypass authentication): {"+strings.Join(impls, ",")+"} all reviewed", "new transaction body type(s) provide method metadata and can be marked critical (authentication bypass in processTx) without review: "+strings.Join(bad, ","))
	}
	c.WhoMayCall(ix, "C09.auth", "consensus/cometbft/abci.(*ApplicationServer).SetTransactionAuthHandler", []string{"consensus/cometbft/full/"}, "auth handler configured at node construction")

	// ---- (c) nonce
	if fn := c.needFn("C09.nonce", fnAuthPay); fn != nil {
		writes := union("state-writes", CallsTo(fn, "", "common/quantity.Move", ""), StoresTo(fn, "", "staking/api.GeneralAccount.Nonce"), CallsTo(fn, "", "consensus/cometbft/apps/staking/state.(*MutableState).SetAccount", ""))
		writes.Name, writes.Fn = "fee-move/nonce++/SetAccount", fn
		c.DominatedBySentinelGuard("C09.nonce", fn, GuardSpec{"consensus/api/transaction.ErrInvalidNonce", []string{`Account\(.*\)#0\.General\.Nonce != param:nonce$`}, "the transaction nonce must equal the account nonce"}, writes)
		inc := StoresTo(fn, "Nonce++", "staking/api.GeneralAccount.Nonce")
		okInc := len(inc.Ins) == 1
		if okInc {
			st := inc.Ins[0].(*ssa.Store)
			s := vstr(st.Val)
			okInc = strings.HasSuffix(s, ".General.Nonce + 1)")
		}
		c.Check(okInc, "C09.nonce", fnAuthPay+":single-increment", c.P.Pos(fn.Pos()), "exactly one store Nonce = Nonce+1", "the nonce is not advanced by exactly one in exactly one place")
		c.OnAllSuccessExits("C09.nonce", fn, inc, CallsTo(fn, "SetAccount", "consensus/cometbft/apps/staking/state.(*MutableState).SetAccount", ""), "the advanced nonce is persisted on every success exit")
		// ... and in block delivery every success exit has advanced it (an increment that is skipped under some condition —
		// a saturating "AdvanceNonce" helper, for instance — lets the same signed bytes authenticate again)
		{
			cut := NewCut().AddInstr(inc.Ins...)
			cut.AddEdges(HeldEdges(fn, `^consensus/cometbft/api\.\(\*Context\)\.IsSimulation\(param:ctx\)$`)...)
			cut.AddEdges(HeldEdges(fn, `^consensus/cometbft/api\.\(\*Context\)\.IsCheckOnly\(param:ctx\)$`)...)
			for _, r := range Returns(fn) {
				cut.AddEdges(phiNonNilEdges(r)...)
			}
			hit := Reach(fn, nil, nil, anyOf(SuccessReturns(fn)), cut)
			site := c.P.Pos(fn.Pos())
			if hit != nil {
				site = c.P.InstrPos(hit)
			}
			c.Check(!inc.Empty() && hit == nil, "C09.nonce", fnAuthPay+":every delivery success exit has advanced the nonce", site, "outside CheckTx/simulation no success return is reachable without the nonce store", "AuthenticateAndPayFees can succeed in block delivery without advancing the signer's nonce: the same signed transaction authenticates again")
		}
		// account fetched for the signer's address
		acc := CallsTo(fn, "state.Account", "consensus/cometbft/apps/staking/state.(*ImmutableState).Account", "")
		for _, call := range acc.Calls() {
			s := vstr(allArgs(call)[2])
			c.Check(strings.Contains(s, "staking/api.NewAddress(param:signer)"), "C09.nonce", fnAuthPay+":account-of-signer", c.P.InstrPos(call), "nonce is read from the signer's account", "nonce is read from an account other than the signer's: "+s)
		}
		// delivery-mode writes are excluded in check/simulate
		c.DominatedByCond("C09.nonce", fn, "!IsSimulation", `^!consensus/cometbft/api\.\(\*Context\)\.IsSimulation\(param:ctx\)$`, writes, "simulation never writes")
		c.DominatedByCond("C09.nonce", fn, "!IsCheckOnly", `^!consensus/cometbft/api\.\(\*Context\)\.IsCheckOnly\(param:ctx\)$`, writes, "CheckTx never writes")
	}
	// the nonce lives in the account record: the record is never deleted (a deleted and re-created
	// account would start again at nonce 0 and every old signed transaction would be valid once more)
	{
		nEnc, nRm := 0, 0
		for _, fn := range c.P.ModFuncs {
			if fn.Blocks == nil || !strings.HasPrefix(short(fpkgPath(fn)), "consensus/cometbft/apps/") {
				continue
			}
			for _, call := range callsIn(fn) {
				if calleeName(call) != "common/keyformat.(*KeyFormat).Encode" {
					continue
				}
				if !strings.Contains(vstr(allArgs(call)[0]), "global:consensus/cometbft/apps/staking/state.accountKeyFmt") {
					continue
				}
				nEnc++
				v := call.Value()
				seen := map[ssa.Value]bool{}
				work := []ssa.Value{v}
				for len(work) > 0 {
					x := work[len(work)-1]
					work = work[:len(work)-1]
					if x == nil || seen[x] || x.Referrers() == nil {
						continue
					}
					seen[x] = true
					for _, r := range *x.Referrers() {
						switch y := r.(type) {
						case ssa.CallInstruction:
							cn := calleeName(y)
							if strings.HasSuffix(cn, ".Remove") || strings.HasSuffix(cn, ".RemoveExisting") || strings.HasSuffix(cn, ".Delete") {
								nRm++
								c.Fail("C09.nonce", "account record removed<-"+fname(fn), c.P.InstrPos(y), "a staking account record is deleted: its nonce restarts at 0 when the account is used again and old signed transactions become replayable")
							}
						case *ssa.Phi:
							work = append(work, y)
						case *ssa.ChangeType:
							work = append(work, y)
						case *ssa.Convert:
							work = append(work, y)
						}
					}
				}
			}
		}
		if nRm == 0 {
			c.Check(nEnc >= 2, "C09.nonce", "account records are never removed", "", itoa(nEnc)+" account keys built, none passed to a removal", "no account key construction found (accountKeyFmt)")
		}
	}
	c.WhoMayStore(ix, "C09.nonce", "staking/api.GeneralAccount.Nonce", []string{fnAuthPay, "consensus/cometbft/apps/staking.(*Application).PostExecuteTx", "staking/api/", "consensus/cometbft/apps/staking/state/interop/", "oasis-node/cmd/", "oasis-test-runner/", "genesis/"}, "the nonce is advanced only by authentication")
	if fn := c.P.Fn("consensus/cometbft/apps/staking.(*Application).PostExecuteTx"); fn != nil {
		st := StoresTo(fn, "Nonce=", "staking/api.GeneralAccount.Nonce")
		if !st.Empty() {
			c.DominatedByCond("C09.nonce", fn, "IsCheckOnly", `^consensus/cometbft/api\.\(\*Context\)\.IsCheckOnly\(param:ctx\)$`, st, "the post-execute nonce bump exists only for CheckTx state")
		}
	}

	// ---- (d) signature contexts
	{
		type ctxUse struct {
			s     string
			site  Site
			chain bool
			dyn   string
			first string // first literal appended to the base when the context is used
		}
		var ctxs []ctxUse
		okConst := true
		for _, s := range ix.Calls["common/crypto/signature.NewContext"] {
			args := allArgs(s.In.(ssa.CallInstruction))
			k, ok := args[0].(*ssa.Const)
			if !ok || k.Value == nil || k.Value.Kind() != constant.String {
				if _, tab := c.Tabled("c09_contexts", fname(s.Fn)); tab {
					continue
				}
				okConst = false
				c.Fail("C09.ctx", "NewContext:non-constant<-"+fname(s.Fn), c.P.InstrPos(s.In), "signature context is not a compile-time constant: "+vstr(args[0]))
				continue
			}
			cu := ctxUse{s: constant.StringVal(k.Value), site: s}
			if len(args) >= 2 {
				for _, el := range variadicElems(args[1]) {
					es := vstr(el)
					if strings.Contains(es, "signature.WithChainSeparation") {
						cu.chain = true
					}
					if strings.Contains(es, "signature.WithDynamicSuffix(") {
						if call, ok := el.(*ssa.Call); ok {
							if kk, ok := call.Call.Args[0].(*ssa.Const); ok && kk.Value != nil && kk.Value.Kind() == constant.String {
								cu.dyn = constant.StringVal(kk.Value)
							} else {
								cu.dyn = "?"
							}
						}
					}
				}
			}
			switch {
			case cu.dyn != "":
				cu.first = cu.dyn
			case cu.chain:
				cu.first = " for chain "
			}
			ctxs = append(ctxs, cu)
		}
		c.Floor("C09.ctx", len(ctxs), 15, "signature.NewContext call sites with constant context")
		bad := 0
		for i := range ctxs {
			for j := range ctxs {
				if i == j {
					continue
				}
				a, b := ctxs[i].s, ctxs[j].s
				if a == b && i < j {
					bad++
					c.Fail("C09.ctx", "duplicate:"+a, c.P.InstrPos(ctxs[j].site.In), "signature context "+a+" is registered at two sites (also "+c.P.InstrPos(ctxs[i].site.In)+"): domains are not separated")
				} else if a != b && strings.HasPrefix(b, a) && prefixCollides(ctxs[i].first, b[len(a):]) {
					bad++
					c.Fail("C09.ctx", "prefix:"+a+"<"+b, c.P.InstrPos(ctxs[j].site.In), "signature context '"+a+"' is a proper prefix of '"+b+"': H(context‖message) has no length framing, so a message of one domain can be read in the other")
				}
			}
			if strings.Contains(ctxs[i].s, " for chain ") {
				bad++
				c.Fail("C09.ctx", "separator-in:"+ctxs[i].s, c.P.InstrPos(ctxs[i].site.In), "context contains the chain separator")
			}
		}
		if bad == 0 && okConst {
			c.OK("C09.ctx", "contexts:distinct+prefix-free", "", itoa(len(ctxs))+" constant signature contexts, pairwise distinct and prefix-free, none contains the chain separator")
		}
		// transaction context is chain separated
		okChain := false
		for _, cu := range ctxs {
			if cu.s == "oasis-core/consensus: tx" || short(fpkgPath(cu.site.Fn)) == "consensus/api/transaction" {
				if cu.chain {
					okChain = true
				}
			}
		}
		c.Check(okChain, "C09.ctx", "transaction.SignatureContext:WithChainSeparation", "", "transaction signature context is chain-separated", "transaction.SignatureContext is no longer created WithChainSeparation(): transactions signed for another chain would verify")
	}
	c.WhoMayStoreGlobal(ix, "C09.ctx", "common/crypto/signature.chainContext", []string{"common/crypto/signature.SetChainContext", "common/crypto/signature.UnsafeResetChainContext", "common/crypto/signature.init"}, "chain context writers")
	if fn := c.needFn("C09.ctx", "common/crypto/signature.SetChainContext"); fn != nil {
		var sts []ssa.Instruction
		for _, s := range ix.GlobalStore["common/crypto/signature.chainContext"] {
			if s.Fn == fn {
				sts = append(sts, s.In)
			}
		}
		// set-once: the store is dominated by (chainContext == "" || rawContext == chainContext)
		T := Ev{Name: "chainContext=", Fn: fn, Ins: sts}
		if T.Empty() {
			c.Fail("C09.ctx", "SetChainContext:store", c.P.Pos(fn.Pos()), "SetChainContext does not set the chain context")
		} else {
			// the panic on mismatch: a Panic instruction guarded by chainContext != "" && raw != chainContext
			hasPanicGuard := false
			for _, b := range blocksIP(fn) {
				for _, in := range b.Instrs {
					if p, ok := in.(*ssa.Panic); ok && strings.Contains(vstr(p.X), "already set") {
						hasPanicGuard = true
					}
				}
			}
			c.Check(hasPanicGuard, "C09.ctx", "SetChainContext:set-once", c.P.Pos(fn.Pos()), "re-setting a different chain context panics", "the chain context can be silently replaced at run time")
		}
	}
	c.WhoMayCall(ix, "C09.ctx", "common/crypto/signature.UnsafeResetChainContext", []string{"oasis-node/cmd/debug/", "oasis-test-runner/", "common/crypto/signature/", "oasis-node/cmd/common/", "oasis-node/cmd/genesis/", "consensus/cometbft/tests/", "oasis-net-runner/", "runtime/host/tests/", "oasis-node/cmd/"}, "only test/tooling helpers may reset the chain context")
	if fn := c.needFn("C09.ctx", "common/crypto/signature.PrepareSignerContext"); fn != nil {
		// chain separated contexts append separator + chainContext; empty chain context is an error
		c.Check(len(returnsOfGlobal(fn, "common/crypto/signature.errNoChainContext")) > 0, "C09.ctx", "PrepareSignerContext:no-chain-context-is-error", c.P.Pos(fn.Pos()), "chain-separated context without a chain context is an error", "a chain-separated context can be prepared without a chain context")
		c.Check(len(returnsOfGlobal(fn, "common/crypto/signature.errUnregisteredContext")) > 0, "C09.ctx", "PrepareSignerContext:unregistered-is-error", c.P.Pos(fn.Pos()), "unregistered contexts are rejected", "unregistered contexts are accepted")
	}
}

// SuccessRequiresEdgesBool: for a bool-returning verifier, every return of a
// value that is not the constant false passes the given edges.
func (c *Ctx) SuccessRequiresEdgesBool(rule string, fn *ssa.Function, name string, edges []Edge) bool {
	inst := fname(fn) + ":true⇒" + name
	if len(edges) == 0 {
		c.Fail(rule, inst, c.P.Pos(fn.Pos()), "guard "+name+" not found in "+fname(fn))
		return false
	}
	var trues []ssa.Instruction
	for _, r := range Returns(fn) {
		if k, isC := r.Results[0].(*ssa.Const); isC && k.Value != nil && k.Value.Kind() == constant.Bool && !constant.BoolVal(k.Value) {
			continue
		}
		trues = append(trues, r)
	}
	hit := Reach(fn, nil, nil, anyOf(trues), NewCut().AddEdges(edges...))
	return c.Check(hit == nil, rule, inst, c.P.Pos(fn.Pos()), "every possibly-true return passes "+name, "a possibly-true return of "+fname(fn)+" is reachable without "+name)
}

// prefixCollides: context A (whose first appended literal is firstA; "" if A
// is used bare) is a base-prefix of B = A+rest. The effective contexts can be
// in a prefix relation only if A is used bare, or rest and firstA are
// prefix-compatible (or firstA is not a known constant).
func prefixCollides(firstA, rest string) bool {
	if firstA == "" || firstA == "?" {
		return true
	}
	return strings.HasPrefix(rest, firstA) || strings.HasPrefix(firstA, rest)
}

// variadicElems returns the values stored into the backing array of a
// variadic argument slice built at the call site.
func variadicElems(v ssa.Value) []ssa.Value {
	sl, ok := v.(*ssa.Slice)
	if !ok {
		return nil
	}
	al, ok := sl.X.(*ssa.Alloc)
	if !ok {
		return nil
	}
	var out []ssa.Value
	if refs := al.Referrers(); refs != nil {
		for _, r := range *refs {
			if ia, ok := r.(*ssa.IndexAddr); ok {
				if irefs := ia.Referrers(); irefs != nil {
					for _, ir := range *irefs {
						if st, ok := ir.(*ssa.Store); ok && st.Addr == ia {
							out = append(out, st.Val)
						}
					}
				}
			}
		}
	}
	return out
}

// c09Batch — the batch verifier's slot correspondence grows only with the underlying verifier.
// BatchVerifier.Verify copies the underlying ed25519 batch verifier's per-signature verdicts into the per-entry error
// vector through a correspondence "verifier slot → result slot". Entries that are rejected before they reach the
// underlying verifier (malformed signature, blacklisted key, context error) occupy a result slot but no verifier slot.
// Every write to the correspondence (any BatchVerifier field other than the error vector, the error flag and the
// underlying verifier) made while an entry is added must therefore be dominated by "this entry has no error", and an
// error-free entry is pushed only after it was handed to the underlying verifier.
func c09Batch(c *Ctx) {
	const rule = "C09.batch"
	const pk = "common/crypto/signature"
	add := c.needFn(rule, pk+".(*BatchVerifier).Add")
	if add == nil {
		return
	}
	c.Analysed[fname(add)] = true
	n, bad := 0, ""
	for _, f := range append([]*ssa.Function{add}, anonFuncs(add)...) {
		for _, b := range f.Blocks {
			for _, in := range b.Instrs {
				var target ssa.Value
				switch x := in.(type) {
				case *ssa.MapUpdate:
					target = x.Map
				case *ssa.Store:
					target = x.Addr
				default:
					continue
				}
				s := vstr(target)
				fld := ""
				for _, cand := range []string{".resultsMap", ".resultsIdx"} {
					if strings.HasSuffix(s, cand) {
						fld = cand
					}
				}
				if fld == "" {
					// any other field of the verifier that is not results / hasError / verifier
					if i := strings.LastIndex(s, "v."); i < 0 || !strings.Contains(s, "BatchVerifier") && !strings.Contains(s, ":v.") {
						continue
					}
					if strings.HasSuffix(s, ".results") || strings.HasSuffix(s, ".hasError") || strings.HasSuffix(s, ".verifier") || !strings.Contains(s, ":v.") {
						continue
					}
				}
				n++
				ok := false
				for _, h := range heldCondVals(in) {
					bo, isBO := h.Cond.(*ssa.BinOp)
					if !isBO {
						continue
					}
					isNilTest := isNilConst(bo.X) || isNilConst(bo.Y)
					if isNilTest && ((bo.Op.String() == "==" && h.Pol) || (bo.Op.String() == "!=" && !h.Pol)) && (isErrorType(bo.X.Type()) || isErrorType(bo.Y.Type())) {
						ok = true
					}
				}
				if !ok {
					bad = c.P.InstrPos(in)
				}
			}
		}
	}
	site := c.P.Pos(add.Pos())
	if bad != "" {
		site = bad
	}
	c.Check(n > 0 && bad == "", rule, fname(add)+":verifier-slot correspondence recorded only for entries without an error", site, "every write to the slot correspondence while an entry is added is dominated by err == nil", "the correspondence between the underlying verifier's slots and the result slots is extended for an entry that was rejected before it reached the underlying verifier: the verdicts of later entries are written to the wrong result slots, and a transaction with a bad signature is reported as valid")
	// an error-free push follows the hand-over to the underlying verifier
	var okPush []ssa.Instruction
	for _, call := range callsIn(add) {
		if mc, isMC := call.Common().Value.(*ssa.MakeClosure); isMC && len(call.Common().Args) == 1 && isNilConst(call.Common().Args[0]) {
			_ = mc
			okPush = append(okPush, call)
		}
	}
	hand := union("AddWithOptions", CallsTo(add, "", "github.com/oasisprotocol/curve25519-voi/primitives/ed25519/extra/cache.(*Verifier).AddWithOptions", ""))
	if hand.Empty() {
		for _, call := range callsIn(add) {
			if strings.HasSuffix(calleeName(call), ".AddWithOptions") || strings.HasSuffix(calleeName(call), "BatchVerifier).Add") && !strings.Contains(calleeName(call), pk) {
				hand.Ins = append(hand.Ins, call)
			}
		}
		hand.Name, hand.Fn = "AddWithOptions", add
	}
	c.MustPrecede(rule, add, hand, Ev{Name: "pushResult(nil)", Fn: add, Ins: okPush}, "an entry is recorded as error-free only after it was handed to the underlying batch verifier")
}

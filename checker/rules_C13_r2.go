package main

import (
	"strings"

	"golang.org/x/tools/go/ssa"
)

// Round-2 C13 rules.

func rulesC13Round2(c *Ctx) {
	// (1) a removal is an entry whose value is nil, everywhere a log is classified (shared with C02)
	nilMarkerRule(c, "C13.writelog")

	// (2) CommitKnown cannot succeed without the root comparison: every success return of commitWithHooks lies behind
	// the hook's success edge whenever a hook was given (an early "nothing to do" return would accept any expected root)
	const cwh = "storage/mkvs.(*tree).commitWithHooks"
	if fn := c.needFn("C13.commitknown", cwh); fn != nil {
		hook := CallsOfParam(fn, "beforeDbCommit(rootHash)", "beforeDbCommit")
		inst := cwh + ":success⇒hook✓ (when a hook is given)"
		if hook.Empty() {
			c.Fail("C13.commitknown", inst, c.P.Pos(fn.Pos()), "the pre-commit hook is never called in commitWithHooks")
		} else {
			cut, _ := successCut(hook)
			// paths on which no hook was given are exempt
			cut.AddEdges(HeldEdges(fn, `^param:beforeDbCommit == nil$`)...)
			hit := Reach(fn, nil, nil, anyOf(SuccessReturns(fn)), cut)
			site := c.P.Pos(fn.Pos())
			if hit != nil {
				site = c.P.InstrPos(hit)
			}
			c.Check(hit == nil, "C13.commitknown", inst, site, "every success return follows the hook's success edge (or the test that no hook was given)", "commitWithHooks can return success without having called the pre-commit hook although one was given: CommitKnown then succeeds without comparing the computed root with the expected one, and a received write log that does not lead to the announced root is accepted")
		}
	}

	// (3) the revived write log contains every entry of every hop: in ReviveHashedDBWriteLogs' conversion loop the
	// entry is put into the pipe on every path through the loop body that continues (an exit with an error is fine)
	for _, fn := range c.P.FuncsInPkg("storage/mkvs/db/api") {
		if fn.Parent() == nil || fname(fn.Parent()) != "storage/mkvs/db/api.ReviveHashedDBWriteLogs" {
			continue
		}
		c.Analysed[fname(fn)] = true
		puts := CallsTo(fn, "pipe.Put", "storage/mkvs/writelog.(*PipeIterator).Put", "")
		// loop header of the range over the hop's log: the bounds test whose operand is the length of the fetched log
		var heads []ssa.Instruction
		for _, b := range fn.Blocks {
			ifi := lastIfOf(b)
			if ifi == nil {
				continue
			}
			if bo, ok := ifi.Cond.(*ssa.BinOp); ok && strings.Contains(vstr(bo), "builtin.len(") && strings.Contains(vstr(bo), "#1)") && strings.Contains(b.Comment, "rangeindex.loop") {
				heads = append(heads, ifi)
			}
		}
		inst := "storage/mkvs/db/api.ReviveHashedDBWriteLogs:every entry of every hop is emitted"
		if puts.Empty() || len(heads) == 0 {
			c.Fail("C13.hops", inst, c.P.Pos(fn.Pos()), "the conversion loop (range over the fetched hop, pipe.Put of the converted entry) was not found")
			continue
		}
		ok := true
		for _, h := range heads {
			ifi := h.(*ssa.If)
			if hit := Reach(fn, nil, []Edge{{ifi.Block(), 0}}, isInstr(h), NewCut().AddInstr(puts.Ins...)); hit != nil {
				ok = false
			}
		}
		c.Check(ok, "C13.hops", inst, c.P.InstrPos(puts.Ins[0]), "every iteration that continues puts its entry into the pipe", "an iteration of the conversion loop can go on to the next entry without emitting the current one (e.g. a key seen in an earlier hop is skipped): for a multi-hop path the later hop's overwrite or removal is dropped and the served log no longer reproduces the end root")
	}
}

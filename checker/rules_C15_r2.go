package main

import (
	"strings"
)

// Round-2 C15 rules.

func rulesC15Round2(c *Ctx) {
	// ---- shares are never recorded for a deposit that is then rejected
	// Runtime messages execute without a per-message rollback: a handler that records the delegation (the minted shares)
	// and afterwards rejects the operation leaves shares that nothing was paid for; they are redeemed against the other
	// delegators' stake. The write-then-fail analysis restricted to delegation records.
	ledgerWriteThenFail(c, "C15.mint", func(wd string) bool {
		return strings.HasSuffix(wd, ".SetDelegation") || strings.HasSuffix(wd, ".SetDebondingDelegation")
	}, "a delegation record (minted or debonding shares) is written and the operation can still be rejected afterwards; where the handler runs without rollback (runtime messages) the shares stay although nothing was paid in", "no handler can fail after writing a delegation or debonding-delegation record")

	// ---- the debonding record handed to the state setter is a fresh one
	// SetDebondingDelegation merges the record it is given with the one already stored under the same end epoch. A
	// caller that starts from the stored record counts the earlier reclaim twice: the record then holds more shares than
	// were added to the debonding pool for it and its owner is paid out of the other debonders' stake.
	freshDebondingRecordRule(c)
}

// freshDebondingRecordRule: see the comment in rulesC15Round2 (shared with C05: a record counted twice breaks the
// share sums of the debonding pool).
func freshDebondingRecordRule(c *Ctx) {
	for _, fn := range c.P.ModFuncs {
		if fn.Blocks == nil || !strings.HasPrefix(short(fpkgPath(fn)), "consensus/cometbft/apps/staking") {
			continue
		}
		for _, call := range callsIn(fn) {
			if calleeName(call) != "consensus/cometbft/apps/staking/state.(*MutableState).SetDebondingDelegation" {
				continue
			}
			args := allArgs(call)
			deb := args[len(args)-1]
			if isNilConst(deb) {
				continue // removal
			}
			c.Analysed[fname(fn)] = true
			loaded := false
			for _, r := range Roots(deb) {
				if r.Kind == "call" && strings.HasSuffix(r.Name, ".DebondingDelegation") {
					loaded = true
				}
			}
			if strings.Contains(vstr(deb), ").DebondingDelegation(") {
				loaded = true
			}
			c.Check(!loaded, "C15.debond", fname(fn)+":SetDebondingDelegation is given a fresh record", c.P.InstrPos(call), "the record passed to the merging setter does not originate from the stored record", "the debonding record handed to SetDebondingDelegation (which merges it with the stored record of the same end epoch) was itself loaded from the state: the shares of the earlier reclaim are counted twice, the owner is paid more than it redeemed and the last debonder's withdrawal fails")
		}
	}
}

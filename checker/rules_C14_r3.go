package main

import (
	"strings"

	"golang.org/x/tools/go/ssa"
)

// Round-3 rules of C14 (written after seeds C14/8 and C14/9 were missed; C14/7 is reported by C14.diff).
func c14Round3(c *Ctx) {
	// the before-schedule notification lets other applications freeze, suspend and slash nodes for the epoch that ends
	// (roothash liveness evaluation); the election must see what they did: in elect() the notification is published
	// before anything the eligibility filter reads is loaded (node list, node statuses).
	if fn := c.needFn("C14.suitable", pkSched+".(*Application).elect"); fn != nil {
		c.Analysed[fname(fn)] = true
		pub := Ev{Name: "Publish(MessageBeforeSchedule)", Fn: fn}
		for _, call := range callsIn(fn) {
			if strings.HasSuffix(calleeName(call), "(MessageDispatcher).Publish") {
				pub.Ins = append(pub.Ins, call)
			}
		}
		var loads []ssa.Instruction
		for _, call := range callsIn(fn) {
			n := calleeName(call)
			if strings.HasSuffix(n, "registry/state.(*ImmutableState).Nodes") || strings.HasSuffix(n, "registry/state.(*ImmutableState).NodeStatus") {
				loads = append(loads, call)
			}
		}
		inst := fname(fn) + ":before-schedule notification precedes the loading of nodes and node statuses"
		if pub.Empty() || len(loads) == 0 {
			c.Fail("C14.suitable", inst, c.P.Pos(fn.Pos()), "the before-schedule notification or the loading of the node list / statuses was not found in elect (unresolved anchor)")
		} else {
			cut, _ := successCut(pub)
			hit := Reach(fn, nil, nil, anyOf(loads), cut)
			pos := c.P.InstrPos(pub.Ins[0])
			if hit != nil {
				pos = c.P.InstrPos(hit)
			}
			c.Check(hit == nil, "C14.suitable", inst, pos, "the node list and the node statuses are read only after the notification succeeded", "elect reads the node list or node statuses before it has published the before-schedule notification: a node that another application freezes or suspends from inside that notification (liveness evaluation at the same epoch transition) is filtered against its stale status and can still be elected")
		}
	}

	// (F42) the limits are consistent with each other: the parameters' SanityCheck (applied to the result of a parameter
	// change and to the genesis) succeeds only if the minimum number of validators does not exceed the maximum (an
	// election that cannot reach the minimum fails, and with min > max every election would).
	if fn := c.needFn("C14.limits", "scheduler/api.(*ConsensusParameters).SanityCheck"); fn != nil {
		edges := HeldEdges(fn, `^\*param:p\.MaxValidators >= \*param:p\.MinValidators$`)
		edges = append(edges, HeldEdges(fn, `^\*param:p\.MaxValidators <= 0$`)...)
		c.SuccessRequiresEdges("C14.limits", fn, "MinValidators <= MaxValidators", edges, "parameters whose minimum number of validators exceeds the maximum are rejected (every election would fail with 'insufficient validators' and stop the chain at the next epoch transition)")
	}
}

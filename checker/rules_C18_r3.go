package main

import (
	"go/token"
	"go/types"
	"strings"

	"golang.org/x/tools/go/ssa"
)

// Round-3 rules of C18 (written after seeds C18/7..9 were missed).
func c18Round3(c *Ctx) {
	const pk = "common/sgx/pcs"
	// (a) TDX TCB level matching compares the TEE TCB SVN components from index 0 unless the module version (index 1) is
	// non-zero: the start of the compared range is 0 on the path where tdxCompSvn[1] == 0 (a constant start of 2 leaves
	// the module SVN of version-0 modules uncompared and an out-of-date platform is accepted).
	if fn := c.needFn("C18.must", pk+".(*TCBLevel).matches"); fn != nil {
		c.Analysed[fname(fn)] = true
		n := 0
		ok := true
		site := c.P.Pos(fn.Pos())
		for _, b := range blocksIP(fn) {
			for _, in := range b.Instrs {
				sl, isSl := in.(*ssa.Slice)
				if !isSl || !strings.HasSuffix(vstr(sl.X), ".TDXComponents") {
					continue
				}
				n++
				site = c.P.InstrPos(in)
				switch lo := sl.Low.(type) {
				case nil:
				case *ssa.Const:
					if k, isK := constInt(lo); isK && k != 0 {
						ok = false
					}
				case *ssa.Phi:
					zero := false
					for i, e := range lo.Edges {
						if k, isK := constInt(e); isK && k == 0 {
							// the zero start must be what is used when tdxCompSvn[1] == 0: the other edge is taken
							// under tdxCompSvn[1] != 0
							zero = true
							_ = i
						}
					}
					if !zero || len(HeldEdges(fn, `^\*param:tdxCompSvn\[1\] != 0$`)) == 0 {
						ok = false
					}
				default:
					ok = false
				}
			}
		}
		c.Check(n > 0 && ok, "C18.must", fname(fn)+":TDX components compared from index 0 unless the module version is set", site, "the compared range of TDX TCB components starts at 0 when tdxCompSvn[1] == 0", "the TDX TCB component comparison always skips the first components (or its start is no longer tied to tdxCompSvn[1]): for a version-0 TDX module the module SVN is compared with nothing and an out-of-date platform matches an up-to-date TCB level")
	}

	// (b) the QE identity's attributes are matched exactly under the mask: verify succeeds only through
	// (report flags & mask) == expected and (report xfrm & mask) == expected (an "any common bit" test accepts a debug QE).
	if fn := c.needFn("C18.must", pk+".(*QEIdentity).verify"); fn != nil {
		c.SuccessRequiresCond("C18.must", fn, "(flags & mask) == expected", `^\(\*param:report\.attributes\.Flags & .*AttributesMask.*\) == .*\.Attributes\)#0.*$`, "the QE report's attribute flags equal the expected flags under the mask")
		c.SuccessRequiresCond("C18.must", fn, "(xfrm & mask) == expected", `^\(\*param:report\.attributes\.Xfrm & .*AttributesMask.*\) == .*\.Attributes\)#0.*$`, "the QE report's XFRM equals the expected value under the mask")
	}

	// (c) a quote policy is never rebuilt field by field with a field left out: any function of the module that fills a
	// new pcs.QuotePolicy / pcs.TdxQuotePolicy from the fields of another one copies every field (a copy without
	// `Disabled` turns "PCS attestation disabled by default" into "enabled").
	c18FMSPCCase(c)
	nCopies := 0
	for _, fn := range c.P.ModFuncs {
		if fn.Blocks == nil {
			continue
		}
		type acc struct {
			st     *types.Struct
			stored map[int]bool
			copied int
			at     ssa.Instruction
		}
		allocs := map[*ssa.Alloc]*acc{}
		for _, b := range blocksIP(fn) {
			for _, in := range b.Instrs {
				st, ok := in.(*ssa.Store)
				if !ok {
					continue
				}
				fa, ok := st.Addr.(*ssa.FieldAddr)
				if !ok {
					continue
				}
				al, ok := fa.X.(*ssa.Alloc)
				if !ok {
					continue
				}
				nm := namedOf(derefType(al.Type()))
				if nm != pk+".QuotePolicy" && nm != pk+".TdxQuotePolicy" {
					continue
				}
				a := allocs[al]
				if a == nil {
					stt, _ := derefType(al.Type()).Underlying().(*types.Struct)
					a = &acc{st: stt, stored: map[int]bool{}}
					allocs[al] = a
				}
				a.stored[fa.Field] = true
				a.at = in
				// copied from the same-named field of another value of the same type?
				fname := fieldName(fa.X.Type(), fa.Field)
				if s := vstr(st.Val); strings.Contains(s, "."+fname) {
					a.copied++
				}
			}
		}
		for _, a := range allocs {
			if a.st == nil || a.copied < 2 {
				continue
			}
			nCopies++
			var missing []string
			for i := 0; i < a.st.NumFields(); i++ {
				if !a.stored[i] {
					missing = append(missing, a.st.Field(i).Name())
				}
			}
			c.Check(len(missing) == 0, "C18.must", fname(fn)+":a quote policy copy carries every field", c.P.InstrPos(a.at), "all fields of the policy are set in the copy", "a quote policy is rebuilt field by field without "+strings.Join(missing, ", ")+": the copy silently drops that part of the policy (e.g. Disabled: a disabled default policy becomes an enabled one and quotes are accepted)")
		}
	}
	if nCopies == 0 {
		c.OK("C18.must", "module:no field-by-field copy of a quote policy", "", "quote policies are passed by reference; no function rebuilds one from another's fields")
	}
}

// c18FMSPCCase (F45): FMSPC list entries are hexadecimal strings and Intel's TCB infos do not agree on their letter case;
// membership in the policy's white-/blacklist is decided case-insensitively (no exact string comparison of FMSPCs).
func c18FMSPCCase(c *Ctx) {
	const pk = "common/sgx/pcs"
	fn := c.needFn("C18.must", pk+".(*TCBInfo).validate")
	if fn == nil {
		return
	}
	c.Analysed[fname(fn)] = true
	exact, folded := 0, 0
	var site ssa.Instruction
	var visit func(f *ssa.Function, d int)
	seen := map[*ssa.Function]bool{}
	visit = func(f *ssa.Function, d int) {
		if f == nil || seen[f] || d > 3 || f.Blocks == nil {
			return
		}
		seen[f] = true
		for _, call := range callsIn(f) {
			n := calleeName(call)
			args := allArgs(call)
			onList := false
			for _, a := range args {
				if s := vstr(a); strings.Contains(s, "FMSPCBlacklist") || strings.Contains(s, "FMSPCWhitelist") {
					onList = true
				}
			}
			switch {
			case strings.HasPrefix(n, "slices.Contains") && !strings.HasPrefix(n, "slices.ContainsFunc") && onList:
				exact++
				site = call
			case n == "strings.EqualFold":
				folded++
			}
			if cal := call.Common().StaticCallee(); cal != nil && strings.HasPrefix(fname(cal), pk+".") {
				visit(cal, d+1)
			}
			for _, a := range args {
				if mc, ok := a.(*ssa.MakeClosure); ok {
					if cf, ok := mc.Fn.(*ssa.Function); ok {
						visit(cf, d+1)
					}
				}
			}
		}
	}
	visit(fn, 0)
	pos := c.P.Pos(fn.Pos())
	if site != nil {
		pos = c.P.InstrPos(site)
	}
	c.Check(exact == 0 && folded > 0, "C18.must", fname(fn)+":FMSPC list membership ignores letter case", pos, "the FMSPC lists are searched with a case-insensitive comparison", "the policy's FMSPC white-/blacklist is searched with an exact string comparison: Intel spells the FMSPC in upper case for some platforms and in lower case for others, so a blacklist entry in the other case does not block the platform (and a whitelist entry does not admit it)")
}

var _ = token.ADD

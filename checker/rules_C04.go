package main

import (
	"go/token"
	"go/types"
	"sort"
	"strings"

	"golang.org/x/tools/go/ssa"
)

func init() {
	register("C04", rulesC04)
	register("C12", rulesC12)
	register("C13", rulesC13)
}

const (
	fnVerifyOpts = "storage/mkvs/syncer.(*ProofVerifier).verifyProofOpts"
	fnVerify     = "storage/mkvs/syncer.(*ProofVerifier).verifyProof"
	fnVP         = "storage/mkvs/syncer.(*ProofVerifier).VerifyProof"
	fnVPWL       = "storage/mkvs/syncer.(*ProofVerifier).VerifyProofToWriteLog"
	fnMerge      = "storage/mkvs/syncer.(*SubtreeMerger).MergeVerifiedSubtree"
	hashEqual    = `common/crypto/hash\.\(\*Hash\)\.Equal`
)

// verifierCore: C04.a/b — shared by C04, C12 (chunks are proofs) and C16 (depth bound).
func verifierCore(c *Ctx, rule string) {
	if fn := c.needFn(rule, fnVerifyOpts); fn != nil {
		c.SuccessRequiresCond(rule, fn, "proof.UntrustedRoot==root", `^`+hashEqual+`\(param:proof\.UntrustedRoot,&\(param:root\)\)$`, "a proof is only accepted for the root the caller trusts")
		c.SuccessRequiresCond(rule, fn, "all-entries-consumed", `^(builtin\.len\(\*param:proof\.Entries\) == .*verifyProof\(.*\)#0|.*verifyProof\(.*\)#0 == builtin\.len\(\*param:proof\.Entries\))$`, "trailing (unverified) entries must be rejected")
		c.SuccessRequiresCond(rule, fn, "recomputed-root==root", `^`+hashEqual+`\(&\(storage/mkvs/node\.\(\*Pointer\)\.GetHash\(.*verifyProof\(.*\)#1\)\),&\(param:root\)\)$`, "the hash recomputed bottom-up from the proof entries must equal the trusted root")
		c.SuccessRequiresCond(rule, fn, "proof-version-in-range", `param:proof\.V (>=|<=) `, "only known proof versions are interpreted")
		vp := CallsTo(fn, "verifyProof", fnVerify, "")
		c.SuccessRequiresEdges(rule, fn, "verifyProof✓", mustSuccessEdges(vp), "the subtree must have been rebuilt without error")
	}
	if fn := c.needFn(rule, fnVerify); fn != nil {
		rec := CallsTo(fn, "verifyProof(recursive)", fnVerify, "")
		c.DominatedByCond(rule, fn, "depth<=maxProofDepth", `^param:depth <= \d+$`, rec, "recursion depth is bounded (a malicious proof cannot exhaust the stack)")
		c.DominatedByCond(rule, fn, "idx<len(entries)", `^(param:idx < builtin\.len\(\*param:proof\.Entries\)|builtin\.len\(\*param:proof\.Entries\) > param:idx)$`, rec, "entry index is bounds-checked before use")
		// recursion passes depth+1
		okDepth := len(rec.Ins) > 0
		for _, call := range rec.Calls() {
			args := allArgs(call)
			if len(args) < 5 || vstr(args[4]) != "(param:depth + 1)" {
				okDepth = false
				c.Fail(rule, fname(fn)+":depth+1", c.P.InstrPos(call), "recursive verifyProof call does not pass depth+1 (depth bound would not hold): got "+vstr(args[len(args)-3]))
			}
		}
		if okDepth {
			c.OK(rule, fname(fn)+":depth+1", c.P.InstrPos(rec.Ins[0]), "all "+itoa(len(rec.Ins))+" recursive calls pass depth+1")
		}
		// child claims are re-hashed: every path from a store into the rebuilt
		// internal node's children to the hash taken for the returned pointer
		// passes UpdateHash.
		var childStores []ssa.Instruction
		for _, f := range []string{"LeafNode", "Left", "Right"} {
			childStores = append(childStores, StoresTo(fn, "", "storage/mkvs/node.InternalNode."+f).Ins...)
		}
		A := Ev{Name: "nd.{LeafNode,Left,Right}=", Fn: fn, Ins: childStores}
		B := CallsTo(fn, "n.GetHash()", "storage/mkvs/node.(Node).GetHash", "")
		C := CallsTo(fn, "nd.UpdateHash()", "storage/mkvs/node.(*InternalNode).UpdateHash", "")
		c.Separated(rule, fn, A, B, C, "the hash of a rebuilt internal node must be recomputed from its verified children, never taken from the serialized claim")
		// the full-node entry must be decoded from the entry bytes
		um := CallsTo(fn, "node.UnmarshalBinary", "storage/mkvs/node.UnmarshalBinary", "")
		c.MustPrecede(rule, fn, um, B, "a full node is rebuilt from its serialization before it is hashed")
	}
	for _, n := range []string{fnVP, fnVPWL} {
		if fn := c.needFn(rule, n); fn != nil {
			vo := CallsTo(fn, "verifyProofOpts", fnVerifyOpts, "")
			c.SuccessRequiresEdges(rule, fn, "verifyProofOpts✓", mustSuccessEdges(vo), "results are returned only for a verified proof")
		}
	}
}

func mustSuccessEdges(ev Ev) []Edge {
	var out []Edge
	for _, call := range ev.Calls() {
		es, _ := SuccessEdges(call)
		out = append(out, es...)
	}
	return out
}

// proofRootTaint: C04.d — the trusted-root argument of every VerifyProof*
// call must not derive from the proof argument.
func proofRootTaint(c *Ctx, ix *Index, rule string) int {
	n := 0
	for _, callee := range []string{fnVP, fnVPWL} {
		for _, s := range ix.Calls[callee] {
			if strings.HasPrefix(fname(s.Fn), "storage/mkvs/syncer.(*ProofVerifier)") {
				continue
			}
			n++
			call := s.In.(ssa.CallInstruction)
			args := allArgs(call) // recv, ctx, root, proof
			if len(args) < 4 {
				c.Undecided(rule, "call:"+fname(s.Fn), c.P.InstrPos(s.In), "unexpected VerifyProof arity")
				continue
			}
			rootArg, proofArg := args[2], args[3]
			proofRoots := map[ssa.Value]bool{}
			for _, r := range Roots(proofArg) {
				if r.Kind != "const" {
					proofRoots[r.Val] = true
				}
			}
			bad := ""
			for _, r := range Roots(rootArg) {
				if r.Kind == "const" {
					continue
				}
				if proofRoots[r.Val] {
					bad = r.String()
				}
				// a value produced by decoding the same untrusted bytes
				if r.Kind == "call" && (strings.Contains(r.Name, "cbor.") || strings.Contains(r.Name, "Unmarshal")) {
					bad = r.String()
				}
			}
			inst := fname(s.Fn) + "→" + callee[strings.LastIndex(callee, ".")+1:] + ":root-arg"
			c.Check(bad == "", rule, inst, c.P.InstrPos(s.In), "trusted root argument {"+rootsStr(Roots(rootArg))+"} is independent of the proof {"+rootsStr(Roots(proofArg))+"}",
				"the trusted root passed to the verifier derives from the untrusted proof itself ("+bad+"): any proof would verify against its own claimed root")
		}
	}
	return n
}

func rulesC04(c *Ctx) {
	c.Explain = append(c.Explain,
		"C04 (proofs cannot lie) — decided: (a) every success return of the verifier passes: proof.UntrustedRoot==trusted root, proof version in range, subtree rebuilt without error, ALL entries consumed, and the hash recomputed from the entries equals the trusted root parameter; VerifyProof/VerifyProofToWriteLog return data only on that success; (b) in the recursive rebuild: depth and index guards dominate every recursive call, which passes depth+1; full nodes are decoded from the entry and an internal node's hash is recomputed (UpdateHash) after its children were replaced by recursively verified ones and before the hash is used; (c) remote sync merges a subtree only after VerifyProof's success edge, the merged value is that call's result, MergeVerifiedSubtree is only called from there (and itself), and replaces a node only under hash equality with a clean destination; (d) at every VerifyProof* call site in the module the trusted-root argument does not derive from the proof argument.",
		"(round 2) (g) C04.depth: the verifier's depth bound covers every tree Insert accepts (fails today: known finding F21, completeness only); (h) C04.prefix: in a prefix fetch Seek(prefix) precedes every use of the iterator position in that iteration; (i) C04.writelog: the key/value pairs reported for a verified proof are appended only by addLeafToWriteLog, which is called only inside the hashing recursion, and VerifyProofToWriteLog returns that log.",
		"NOT decided: completeness of proof builders (that every node on the path is included), collision resistance, behaviour of remote-backed trees under arbitrary response sequences, correctness of node hashing itself (C02).")
	verifierCore(c, "C04.verify")
	c04IterErr(c)
	c04Round4(c)
	c04Round5(c)
	remoteNodePresentRule(c, "C04.deref")
	remoteProofVersionRule(c, "C04.merge")
	ix := c.P.BuildIndex()

	const rs = "storage/mkvs.(*cache).remoteSync"
	if fn := c.needFn("C04.merge", rs); fn != nil {
		vp := CallsTo(fn, "VerifyProof", fnVP, "")
		mg := CallsTo(fn, "MergeVerifiedSubtree", fnMerge, "")
		c.MustPrecede("C04.merge", fn, vp, mg, "nodes received from an untrusted peer are merged only after the proof verified")
		for _, call := range mg.Calls() {
			args := allArgs(call) // recv, ctx, dst, subtree, committer
			ok := false
			if len(args) >= 4 {
				for _, r := range Roots(args[3]) {
					if r.Kind == "call" && strings.HasPrefix(r.Name, fnVP) {
						ok = true
					} else if r.Kind != "const" {
						ok = false
						break
					}
				}
			}
			c.Check(ok, "C04.merge", rs+":merged-value-is-verified", c.P.InstrPos(call), "the merged subtree is the verifier's result", "the subtree handed to MergeVerifiedSubtree is not (only) the result of VerifyProof")
		}
		// expected root is selected among trusted hashes by comparing with the proof's claim
		for _, call := range vp.Calls() {
			rootArg := allArgs(call)[2]
			okSel := true
			var rr []string
			for _, r := range Roots(rootArg) {
				rr = append(rr, r.String())
				if r.Kind == "const" || r.Kind == "alloc" {
					continue
				}
				if !(r.Kind == "param" && (strings.HasPrefix(r.Name+r.Path, "ptr.Hash") || strings.HasPrefix(r.Name+r.Path, "c.syncRoot.Hash"))) {
					okSel = false
				}
			}
			c.Check(okSel, "C04.merge", rs+":expected-root∈{ptr.Hash,syncRoot.Hash}", c.P.InstrPos(call), "expected root is one of the locally trusted hashes: "+strings.Join(rr, ","), "expected root for the remote proof has an untrusted origin: "+strings.Join(rr, ","))
		}
	}
	c.WhoMayCall(ix, "C04.merge", fnMerge, []string{rs, fnMerge}, "unverified subtrees must never be merged")
	if fn := c.needFn("C04.merge", fnMerge); fn != nil {
		st := StoresTo(fn, "dst.Node=", "storage/mkvs/node.Pointer.Node")
		c.DominatedByCond("C04.merge", fn, "dst.Hash==subtree.Hash", `^`+hashEqual+`\(param:dst\.Hash,param:subtree\.Hash\)$`, st, "a node is replaced only by a node with the same hash")
		c.DominatedByCond("C04.merge", fn, "dst.Clean", `^\*param:dst\.Clean$`, st, "only clean pointers (whose hash is authoritative) are merged into")
		rec := CallsTo(fn, "MergeVerifiedSubtree(rec)", fnMerge, "")
		c.DominatedByCond("C04.merge", fn, "dst.Hash==subtree.Hash", `^`+hashEqual+`\(param:dst\.Hash,param:subtree\.Hash\)$`, rec, "children are merged only under a verified-equal parent")
	}
	// (e) an unresolved pointer after a remote sync is an error, never an empty subtree
	const deref = "storage/mkvs.(*cache).derefNodePtr"
	if fn := c.needFn("C04.deref", deref); fn != nil {
		rs := CallsTo(fn, "remoteSync", "storage/mkvs.(*cache).remoteSync", "")
		if rs.Empty() {
			c.Fail("C04.deref", deref+":remoteSync", c.P.Pos(fn.Pos()), "derefNodePtr no longer syncs missing nodes")
		} else {
			cut := NewCut().AddEdges(HeldEdges(fn, `^\*param:ptr\.Node != nil$`)...)
			for _, r := range Returns(fn) {
				cut.AddEdges(phiNonNilEdges(r)...)
			}
			hit := Reach(fn, nil, mustSuccessEdges(rs), anyOf(SuccessReturns(fn)), cut)
			c.Check(hit == nil, "C04.deref", deref+":remoteSync✓⇒ptr.Node!=nil", c.P.InstrPos(rs.Ins[0]), "after a successful remote sync a still-unresolved pointer is reported as an error", "after remoteSync succeeded derefNodePtr can return success with an unresolved pointer: a proof that verifies but does not contain the node makes existing keys appear absent")
		}
	}
	// (f) no fetch/verification error is dropped in the tree read paths (lookup, iteration, prefetch, insert, remove)
	var readFns []*ssa.Function
	for _, fn := range c.P.FuncsInPkg("storage/mkvs") {
		if fn.Parent() == nil {
			readFns = append(readFns, fn)
		}
	}
	nchk := c.ErrDrop("C04.errdrop", readFns, func(name string, call ssa.CallInstruction) bool {
		// errors of module functions and of local closures / fetcher callbacks; not logging/fmt
		if strings.HasPrefix(name, "dynamic:") {
			return true
		}
		return strings.HasPrefix(name, "storage/mkvs") || strings.HasPrefix(name, "storage/mkvs/")
	})
	c.Floor("C04.errdrop", nchk, 60, "error-returning calls in storage/mkvs")
	c.OK("C04.errdrop", "storage/mkvs:all-errors-surface", "", itoa(nchk)+" error-returning calls examined: each error is nil-tested, returned on all paths, or handed on")
	n := proofRootTaint(c, ix, "C04.taint")
	c.Floor("C04.taint", n, 2, "VerifyProof* call sites outside the verifier")

	// (g) completeness side of the depth bound: the verifier rejects proofs nested deeper than maxProofDepth; an honest
	// tree nests one level per key that is a proper prefix of the next, up to the bit length a key can have. Either the
	// bound covers that, or the tree refuses keys long enough to exceed it (a dominating length test on Insert's key).
	c04Depth(c)
	childNodeReadRule(c, "C04.deref")
	atomicRules(c, "C04.atomic", []string{"storage/mkvs.(*cache).tryRemoveNode"})
	// (h) prefix fetches seek every requested prefix; (i) the reported write log is collected only while hashing
	c04Prefix(c)
	c04WriteLogSource(c, ix)
}

func c04Depth(c *Ctx) {
	depthRule(c, "C04.depth", "the proof the tree itself produces for the deepest key does not verify, and a remote reader cannot read that key")
}

// depthRule: the verifier's nesting bound covers every tree Insert accepts (shared: C04 — completeness of proofs; C12 —
// checkpoint chunks are proofs and are verified with the same bound when they are restored).
func depthRule(c *Ctx, rule, consequence string) {
	bound, ok := c.ConstInt("storage/mkvs/syncer", "maxProofDepth")
	if !ok {
		c.Fail(rule, "storage/mkvs/syncer.maxProofDepth", "", "the verifier's depth bound constant was not found (unresolved anchor)")
		return
	}
	// maximal key bit length: the range of node.Depth
	maxBits := int64(0)
	if pk := c.P.Pkg("storage/mkvs/node"); pk != nil {
		if tn, ok := pk.Types.Scope().Lookup("Depth").(*types.TypeName); ok {
			if b, ok := tn.Type().Underlying().(*types.Basic); ok {
				switch b.Kind() {
				case types.Uint8:
					maxBits = 1<<8 - 1
				case types.Uint16:
					maxBits = 1<<16 - 1
				case types.Uint32:
					maxBits = 1<<32 - 1
				default:
					maxBits = 1<<62 - 1
				}
			}
		}
	}
	if maxBits == 0 {
		c.Fail(rule, "storage/mkvs/node.Depth", "", "the key depth type was not found (unresolved anchor)")
		return
	}
	// does Insert bound the key length? (a branch on len(key) against a constant that leads to an error return): the
	// depth an honest tree can reach is then bounded by that many bits
	if fn := c.needFn(rule, "storage/mkvs.(*tree).Insert"); fn != nil {
		c.Analysed[fname(fn)] = true
		for _, b := range fn.Blocks {
			ifi := lastIfOf(b)
			if ifi == nil {
				continue
			}
			if bo, ok := ifi.Cond.(*ssa.BinOp); ok {
				s := vstr(bo)
				if strings.Contains(s, "builtin.len(") && strings.Contains(s, "param:key") {
					if k, isK := constInt(bo.Y); isK && k > 0 && k*8 < maxBits {
						maxBits = k * 8
					}
				}
			}
		}
	}
	limited := false
	pos := ""
	if pk := c.P.Pkg("storage/mkvs/syncer"); pk != nil {
		if o := pk.Types.Scope().Lookup("maxProofDepth"); o != nil {
			pos = c.P.Pos(o.Pos())
		}
	}
	c.Check(bound >= maxBits+1 || limited, rule, "storage/mkvs/syncer.maxProofDepth:covers the depth of every tree that Insert accepts", pos,
		"the verifier's depth bound covers every honest tree", "the verifier rejects proofs nested deeper than "+itoa(int(bound))+" levels, but Insert accepts keys of up to "+itoa(int(maxBits))+" bits and an honest tree nests one level per key that is a proper prefix of the next: for a tree holding more than "+itoa(int(bound))+" nested-prefix keys "+consequence)
}

func rulesC12(c *Ctx) {
	c.Explain = append(c.Explain,
		"C12 (checkpoints restore exactly) — decided: in restoreChunk the node import (NewBatch, doRestoreChunk, batch.Commit) is reachable only through digest equality with the hash of the bytes actually read (TeeReader into the builder), absence of a decode error, and the success edge of VerifyProof called with the MANIFEST's root hash (not chunk bytes); the imported pointer is that call's result; the verifier core clauses of C04; the restorer marks a chunk restored only after restoreChunk's success edge, checks it is still pending under the lock, and aborts on proof failure; chunk creation has no map-order/time/rand influence and the parallel chunker stores results by task index.",
		"NOT decided: equality of restored and original contents for all trees, chunk sizes, orders and thread counts; that the chunk splitting covers the tree.")
	const rule = "C12.restore"
	verifierCore(c, "C12.verify")
	c12KeyFormats(c)
	rulesC12Round2(c)
	c12Round3(c)
	c12Round4(c)
	c12Round5(c)
	depthRule(c, "C12.verify", "a checkpoint is created without error but the restorer rejects every chunk that reaches below that depth (max proof depth exceeded): the checkpoint can never be restored")
	const rc = "storage/mkvs/checkpoint.restoreChunk"
	if fn := c.needFn(rule, rc); fn != nil {
		imp := union("import{NewBatch,doRestoreChunk,Commit}", CallsTo(fn, "", "storage/mkvs/db/api.(NodeDB).NewBatch", ""), CallsTo(fn, "", "storage/mkvs/checkpoint.doRestoreChunk", ""), CallsTo(fn, "", "storage/mkvs/db/api.(Batch).Commit", ""))
		imp.Name, imp.Fn = "import{NewBatch,doRestoreChunk,Commit}", fn
		c.DominatedByCond(rule, fn, "chunk.Digest==hash(read bytes)", `^`+hashEqual+`\(param:chunk\.Digest,&\(common/crypto/hash\.\(\*Builder\)\.Build\(.*NewBuilder\(\)\)\)\)$`, imp, "a chunk whose bytes do not match the manifest digest is rejected before anything is imported")
		vp := CallsTo(fn, "VerifyProof", fnVP, "")
		c.MustPrecede(rule, fn, vp, imp, "chunk contents are imported only after the proof verified against the manifest root")
		c.DominatedByCond(rule, fn, "decodeErr==nil", `^phi\(.*\) == nil$`, imp, "decode errors are failures")
		// TeeReader feeds the builder that produces chunkHash
		tee := CallsTo(fn, "io.TeeReader", "io.TeeReader", "")
		okTee := false
		for _, call := range tee.Calls() {
			if strings.Contains(vstr(allArgs(call)[1]), "NewBuilder") && vstr(allArgs(call)[0]) == "param:r" {
				okTee = true
			}
		}
		c.Check(okTee, rule, rc+":tee(r→hashBuilder)", c.P.Pos(fn.Pos()), "digest is computed over the bytes read from the input stream", "the digest builder is no longer fed by a TeeReader on the chunk stream")
		// decoder reads from the tee (so that all decoded bytes are hashed)
		for _, call := range vp.Calls() {
			rootArg := allArgs(call)[2]
			s := rootsStr(Roots(rootArg))
			c.Check(s == "param:chunk.Root.Hash", rule, rc+":verify-root=manifest", c.P.InstrPos(call), "proof verified against chunk.Root.Hash from the manifest", "proof is verified against {"+s+"} instead of the manifest's root hash")
		}
		do := CallsTo(fn, "doRestoreChunk", "storage/mkvs/checkpoint.doRestoreChunk", "")
		for _, call := range do.Calls() {
			ok := false
			for _, r := range Roots(allArgs(call)[2]) {
				if r.Kind == "call" && strings.HasPrefix(r.Name, fnVP) {
					ok = true
				}
			}
			c.Check(ok, rule, rc+":imported=verified", c.P.InstrPos(call), "the imported pointer is the verifier's result", "doRestoreChunk imports a pointer that is not the verifier's result")
		}
	}
	// the chunk batch is reset on every exit once it exists (on pathbadger Reset releases the
	// multipart lock: a leaked batch blocks every later chunk, including the retry)
	if fn := c.needFn(rule, rc); fn != nil {
		nb := CallsTo(fn, "ndb.NewBatch", "storage/mkvs/db/api.(NodeDB).NewBatch", "")
		deferred := false
		for _, call := range callsIn(fn) {
			if d, ok := call.(*ssa.Defer); ok && calleeName(d) == "storage/mkvs/db/api.(Batch).Reset" {
				// the defer must be registered right after creation: every path from NewBatch✓ to a return passes it
				cut := NewCut().AddInstr(d)
				if Reach(fn, nil, mustSuccessEdges(nb), func(i ssa.Instruction) bool { _, r := i.(*ssa.Return); return r }, cut) == nil {
					deferred = true
				}
			}
		}
		ok := deferred
		if !ok && !nb.Empty() {
			resets := CallsTo(fn, "batch.Reset", "storage/mkvs/db/api.(Batch).Reset", "")
			cut := NewCut()
			for _, r := range resets.Ins {
				cut.AddInstr(r)
			}
			ok = !resets.Empty() && Reach(fn, nil, mustSuccessEdges(nb), func(i ssa.Instruction) bool { _, r := i.(*ssa.Return); return r }, cut) == nil
		}
		c.Check(ok, rule, rc+":batch-reset-on-every-exit", c.P.Pos(fn.Pos()), "every exit after NewBatch succeeded resets the batch", "restoreChunk can return (e.g. on a node-import error) without resetting its batch: the multipart lock stays held and every later chunk restore blocks")
	}
	// chunk files are created truncated (a shorter re-created chunk must not keep a stale tail)
	{
		n, bad := 0, 0
		for _, fn := range c.P.FuncsInPkg("storage/mkvs/checkpoint") {
			for _, call := range callsIn(fn) {
				switch calleeName(call) {
				case "os.Create":
					n++
				case "os.OpenFile":
					args := allArgs(call)
					fl, isC := constInt(args[1])
					if !isC {
						continue
					}
					const oWRONLY, oRDWR, oCREATE, oEXCL, oTRUNC = 0x1, 0x2, 0x40, 0x80, 0x200
					if fl&oCREATE != 0 && fl&(oWRONLY|oRDWR) != 0 {
						n++
						if fl&(oTRUNC|oEXCL) == 0 {
							bad++
							c.Fail("C12.determinism", fname(fn)+":create-truncates", c.P.InstrPos(call), "a checkpoint file is created for writing without O_TRUNC/O_EXCL: leftovers of an interrupted creation survive in the chunk and its digest no longer matches the metadata")
						}
					}
				}
			}
		}
		if bad == 0 {
			c.OK("C12.determinism", "checkpoint:create-truncates", "", itoa(n)+" file creations in storage/mkvs/checkpoint all truncate (os.Create / O_TRUNC / O_EXCL)")
		}
		c.Floor("C12.determinism", n, 1, "checkpoint file creations")
	}
	ix := c.P.BuildIndex()
	proofRootTaint(c, ix, "C12.taint")
	const rsC = "storage/mkvs/checkpoint.(*restorer).RestoreChunk"
	if fn := c.needFn(rule, rsC); fn != nil {
		rcall := CallsTo(fn, "restoreChunk", rc, "")
		var dels []ssa.Instruction
		for _, call := range callsIn(fn) {
			if calleeName(call) == "builtin.delete" && strings.Contains(vstr(allArgs(call)[0]), "pendingChunks") {
				dels = append(dels, call)
			}
		}
		c.MustPrecede(rule, fn, rcall, Ev{Name: "delete(pendingChunks,idx)", Fn: fn, Ins: dels}, "a chunk is marked restored only after it was verified and imported")
		abort := CallsTo(fn, "AbortRestore", "storage/mkvs/checkpoint.(*restorer).AbortRestore", "")
		c.Check(!abort.Empty(), rule, rsC+":abort-on-proof-failure", c.P.Pos(fn.Pos()), "restore is aborted when a chunk fails proof verification", "RestoreChunk no longer aborts the restore on ErrChunkProofVerificationFailed")
		// pending check inside the locked closure dominates GetChunkMetadata
		for _, an := range anonFuncs(fn) {
			gm := CallsTo(an, "GetChunkMetadata", "storage/mkvs/checkpoint.(*Metadata).GetChunkMetadata", "")
			if gm.Empty() {
				continue
			}
			c.DominatedByCond(rule, an, "pendingChunks[idx]", `pendingChunks\[.*idx.*\]`, gm, "only chunks still pending are restored (no double import)")
		}
	}
	// C12.c parallel chunker: results stored by task index; writer index acquired outside goroutines
	const pc = "storage/mkvs/checkpoint.(*parallelChunker).createChunks"
	if fn := c.needFn("C12.determinism", pc); fn != nil {
		okIdx, okNoAppend := true, true
		n := 0
		for _, an := range anonFuncs(fn) {
			for _, b := range an.Blocks {
				for _, in := range b.Instrs {
					switch x := in.(type) {
					case *ssa.Store:
						if ia, ok := x.Addr.(*ssa.IndexAddr); ok {
							// store into a captured slice: index must be a captured loop index (free var), not computed in the goroutine
							if _, isFree := Roots(ia.X)[0].Val.(*ssa.FreeVar); isFree {
								n++
								rs := Roots(ia.Index)
								for _, r := range rs {
									if r.Kind != "free" && r.Kind != "const" {
										okIdx = false
										c.Fail("C12.determinism", pc+":indexed-store", c.P.InstrPos(in), "goroutine stores its chunk result at an index not fixed by the task ("+r.String()+")")
									}
								}
							}
						}
					case *ssa.Call:
						if calleeName(x) == "builtin.append" {
							for _, r := range Roots(x.Call.Args[0]) {
								if r.Kind == "free" {
									okNoAppend = false
									c.Fail("C12.determinism", pc+":no-append-in-goroutine", c.P.InstrPos(in), "goroutine appends to a shared slice: chunk order would depend on scheduling")
								}
							}
						}
					}
				}
			}
			// wf.next() must not be called inside the goroutine
			for _, call := range callsIn(an) {
				if strings.HasSuffix(calleeName(call), ").next") || strings.HasSuffix(calleeName(call), ".next") {
					if strings.Contains(calleeName(call), "checkpoint") {
						okIdx = false
						c.Fail("C12.determinism", pc+":writer-acquired-outside-goroutine", c.P.InstrPos(call), "chunk writer/index acquired inside the goroutine: chunk numbering would depend on scheduling")
					}
				}
			}
		}
		if okIdx && okNoAppend {
			c.OK("C12.determinism", pc+":task-indexed-results", c.P.Pos(fn.Pos()), "goroutines store results only by captured task index ("+itoa(n)+" stores), never append; writers acquired outside")
		}
		c.Floor("C12.determinism", n, 1, "indexed result stores in chunker goroutines")
	}
}

func rulesC13(c *Ctx) {
	c.Explain = append(c.Explain,
		"C13 (sync applies exactly the announced transition) — decided: in commitWithHooks the pre-commit hook is called (when non-nil) and its success edge taken before PutWriteLog/RemoveNodes/batch.Commit on every path; CommitKnown passes a hook whose only success path is equality of the computed root hash with the expected one; RootCache.Apply is the only caller of ApplyWriteLog in the storage layer, commits the tree it applied the log to only through CommitKnown(expectedNewRoot) and returns success only through HasRoot(expectedNewRoot) or CommitKnown's success edge; the mismatch sentinel is translated, not swallowed.",
		"NOT decided: that the write log served by the database for two consecutive roots reproduces the second root (coalescing, revival from the DB) — value-dependent.")
	c13Hops(c)
	c13Resolvable(c)
	rulesC13Round2(c)
	c13Round3(c)
	c13Round4(c, c.P.BuildIndex())
	c13Round5(c)
	const rule = "C13.commitknown"
	const cwh = "storage/mkvs.(*tree).commitWithHooks"
	if fn := c.needFn(rule, cwh); fn != nil {
		hook := CallsOfParam(fn, "beforeDbCommit(rootHash)", "beforeDbCommit")
		db := union("db-writes", CallsTo(fn, "", "storage/mkvs/db/api.(Batch).PutWriteLog", ""), CallsTo(fn, "", "storage/mkvs/db/api.(Batch).RemoveNodes", ""), CallsTo(fn, "", "storage/mkvs/db/api.(Batch).Commit", ""))
		db.Name, db.Fn = "batch.{PutWriteLog,RemoveNodes,Commit}", fn
		if hook.Empty() {
			c.Fail(rule, cwh+":hook", c.P.Pos(fn.Pos()), "the pre-commit hook is never called in commitWithHooks")
		} else {
			// on the beforeDbCommit != nil side, hook✓ must precede db writes
			nn := HeldEdges(fn, `^param:beforeDbCommit != nil$`)
			if len(nn) == 0 {
				c.Fail(rule, cwh+":hook-nil-test", c.P.Pos(fn.Pos()), "no nil test on beforeDbCommit found")
			} else {
				cut, _ := successCut(hook)
				hit := Reach(fn, nil, nn, anyOf(db.Ins), cut)
				c.Check(hit == nil, rule, cwh+":hook✓≺db-commit", c.P.InstrPos(hook.Ins[0]), "with a hook configured, nothing is written to the database unless the hook succeeded", "database writes are reachable without the pre-commit hook having succeeded")
				// and the nil-test dominates the db writes (hook decision is made before them)
				all := append(append([]Edge{}, nn...), HeldEdges(fn, `^param:beforeDbCommit == nil$`)...)
				hit2 := Reach(fn, nil, nil, anyOf(db.Ins), NewCut().AddEdges(all...))
				c.Check(hit2 == nil, rule, cwh+":hook-decision≺db-commit", c.P.InstrPos(hook.Ins[0]), "hook decision dominates database writes", "database writes are reachable before the hook decision")
			}
			// hook argument is doCommit's root hash
			for _, call := range hook.Calls() {
				s := rootsStr(Roots(allArgs(call)[0]))
				c.Check(strings.Contains(s, "storage/mkvs.doCommit"), rule, cwh+":hook-arg=computed-root", c.P.InstrPos(call), "hook receives the root hash computed by doCommit", "hook receives {"+s+"} instead of the computed root hash")
			}
		}
	}
	const ck = "storage/mkvs.(*tree).CommitKnown"
	if fn := c.needFn(rule, ck); fn != nil {
		cw := CallsTo(fn, "commitWithHooks", cwh, "")
		ok := false
		for _, call := range cw.Calls() {
			args := allArgs(call) // recv ctx ns version hook opts
			if len(args) >= 5 {
				if mc, isMC := args[4].(*ssa.MakeClosure); isMC {
					hf := mc.Fn.(*ssa.Function)
					c.Analysed[fname(hf)] = true
					ok = c.SuccessRequiresCond(rule, hf, "rootHash==root.Hash", `^`+hashEqual+`\(&\(param:rootHash\),\*?free:root\.Hash\)$|^`+hashEqual+`\(&\(param:rootHash\),.*root.*\.Hash\)$`, "CommitKnown's hook accepts only the expected root hash")
					// failing side returns ErrKnownRootMismatch
					c.Check(len(returnsOfGlobal(hf, "storage/mkvs.ErrKnownRootMismatch")) > 0, rule, ck+":mismatch-sentinel", c.P.Pos(hf.Pos()), "mismatch returns ErrKnownRootMismatch", "hook no longer returns ErrKnownRootMismatch on mismatch")
				}
			}
		}
		if !ok {
			c.Fail(rule, ck+":hook-closure", c.P.Pos(fn.Pos()), "CommitKnown does not pass a verifying hook closure to commitWithHooks")
		}
	}
	ix := c.P.BuildIndex()
	const apply = "storage/api.(*RootCache).Apply"
	c.WhoMayCall(ix, "C13.apply", "storage/mkvs.(Tree).ApplyWriteLog", []string{apply, "storage/mkvs/", "pkg:storage/mkvs", "oasis-node/cmd/", "storage/mkvs/interop/"}, "received write logs are applied only through RootCache.Apply (→CommitKnown)")
	if fn := c.needFn("C13.apply", apply); fn != nil {
		aw := CallsTo(fn, "ApplyWriteLog", "storage/mkvs.(Tree).ApplyWriteLog", "")
		ckc := CallsTo(fn, "CommitKnown", "storage/mkvs.(Tree).CommitKnown", "")
		plain := CallsTo(fn, "Commit", "storage/mkvs.(Tree).Commit", "")
		c.Check(plain.Empty(), "C13.apply", apply+":no-plain-Commit", c.P.Pos(fn.Pos()), "Apply never commits without the expected root", "Apply commits the tree with plain Commit (result root unchecked)")
		c.MustPrecede("C13.apply", fn, aw, ckc, "the log is applied (successfully) before the known-root commit")
		for _, call := range ckc.Calls() {
			s := rootsStrNoAlloc(Roots(allArgs(call)[2]))
			c.Check(s == "param:expectedNewRoot", "C13.apply", apply+":CommitKnown(expectedNewRoot)", c.P.InstrPos(call), "tree is committed against the announced root", "CommitKnown is called with {"+s+"} instead of the announced expected root")
		}
		// success return only via HasRoot true or CommitKnown✓
		edges := mustSuccessEdges(ckc)
		edges = append(edges, HeldEdges(fn, `^\*param:rc\.localDB\.HasRoot\(param:expectedNewRoot\)$`)...)
		c.SuccessRequiresEdges("C13.apply", fn, "HasRoot(expected)∨CommitKnown✓", edges, "Apply reports success only if the expected root is (now) in the database")
		c.Check(len(returnsOfGlobal(fn, "storage/api.ErrExpectedRootMismatch")) > 0, "C13.apply", apply+":mismatch-reported", c.P.Pos(fn.Pos()), "root mismatch is reported as ErrExpectedRootMismatch", "Apply no longer reports ErrExpectedRootMismatch")
	}
	// write-log bookkeeping: whether a key existed at the START of the batch is recorded once, when
	// the pending entry is created, and never overwritten by later operations of the same batch
	{
		n, bad := 0, 0
		for _, sst := range ix.FieldStores["storage/mkvs.pendingEntry.existed"] {
			n++
			st := sst.In.(*ssa.Store)
			fa := st.Addr.(*ssa.FieldAddr)
			fresh := true
			for _, r := range Roots(fa.X) {
				if r.Kind != "alloc" && r.Kind != "const" {
					fresh = false
				}
			}
			if !fresh {
				bad++
				c.Fail("C13.writelog", "pendingEntry.existed<-"+fname(sst.Fn), c.P.InstrPos(sst.In), "pendingEntry.existed is overwritten on an already pending entry: remove→insert→remove of a pre-existing key in one batch would drop the delete from the write log (the served log no longer reproduces the new root)")
			}
		}
		if bad == 0 {
			c.OK("C13.writelog", "pendingEntry.existed:set-once", "", itoa(n)+" stores, all into freshly created entries")
		}
		c.Floor("C13.writelog", n, 2, "stores to pendingEntry.existed")
	}
	// the write-log filter in commit drops exactly entries that did not exist and end removed
	if fn := c.needFn("C13.writelog", "storage/mkvs.(*tree).commitWithHooks"); fn != nil {
		es := HeldEdges(fn, `\.value == nil$`)
		es2 := HeldEdges(fn, `^!\*.*\.existed$`)
		c.Check(len(es) > 0 && len(es2) > 0, "C13.writelog", "commitWithHooks:drop-only(never-existed ∧ removed)", c.P.Pos(fn.Pos()), "log filter tests both value==nil and !existed", "the write-log filter no longer tests both 'removed' and 'did not exist before'")
	}
	// pathbadger serves write logs only for finalized (seqNo 0) roots: a pending competitor's node
	// keys collide with the first candidate's
	if fn := c.needFn("C13.writelog", "storage/mkvs/db/pathbadger.(*badgerNodeDB).GetWriteLog"); fn != nil {
		c.SuccessRequiresCond("C13.writelog", fn, "endRoot seqNo==0", `getPendingRootSeqNo\(.*\)#0 == 0$`, "the path-keyed write log can only be resolved for the root whose nodes are in the finalized set")
	}
}

// c12KeyFormats: reader/writer agreement of the node databases' key formats.
// A key format whose keys are decoded, iterated by prefix or deleted, but for
// which no code path ever stores a full key, describes records that do not
// exist: whatever the readers were meant to find (e.g. the nodes to remove when
// a restore is aborted) is never found.
func c12KeyFormats(c *Ctx) {
	ix := c.P.BuildIndex()
	n := 0
	for _, pk := range []string{"storage/mkvs/db/badger", "storage/mkvs/db/pathbadger"} {
		type use struct {
			writes, reads int
			pos           string
		}
		uses := map[string]*use{}
		var order []string
		for _, fn := range c.P.FuncsInPkg(pk) {
			if strings.HasPrefix(fn.Name(), "migrate") || strings.Contains(fname(fn), "Migrat") || strings.Contains(fname(fn), "migrat") {
				continue // one-off format migrations read old formats by design
			}
			for _, call := range callsIn(fn) {
				nm := calleeName(call)
				if nm != "common/keyformat.(*KeyFormat).Encode" && nm != "common/keyformat.(*KeyFormat).Decode" {
					continue
				}
				a := allArgs(call)
				ld, ok := a[0].(*ssa.UnOp)
				if !ok {
					continue
				}
				g, ok := ld.X.(*ssa.Global)
				if !ok || short(g.Pkg.Pkg.Path()) != pk {
					continue
				}
				name := pk + "." + g.Name()
				if uses[name] == nil {
					uses[name] = &use{pos: c.P.Pos(g.Pos())}
					order = append(order, name)
				}
				if nm == "common/keyformat.(*KeyFormat).Decode" {
					uses[name].reads++
					continue
				}
				// Encode: a full key (>=1 component) that flows into a Set/SetEntry/NewEntry call is a write
				full := len(variadicElems(a[len(a)-1])) > 0
				v := call.Value()
				if v == nil || !full {
					continue
				}
				isWrite := false
				seen := map[ssa.Value]bool{}
				work := []ssa.Value{v}
				for len(work) > 0 && !isWrite {
					x := work[len(work)-1]
					work = work[:len(work)-1]
					if seen[x] || x.Referrers() == nil {
						continue
					}
					seen[x] = true
					for _, r := range *x.Referrers() {
						switch y := r.(type) {
						case ssa.CallInstruction:
							cn := calleeName(y)
							if strings.HasSuffix(cn, ".Set") || strings.HasSuffix(cn, ".SetEntry") || strings.HasSuffix(cn, ".NewEntry") || strings.HasSuffix(cn, ".SetAt") {
								isWrite = true
							}
							if cv := y.Value(); cv != nil && strings.HasSuffix(cn, ".NewEntry") {
								work = append(work, cv)
							}
						case *ssa.Phi:
							work = append(work, y)
						case *ssa.ChangeType:
							work = append(work, y)
						case *ssa.Convert:
							work = append(work, y)
						case *ssa.Return:
							// the key is handed back to the callers of this helper
							for _, st := range ix.Calls[fname(y.Parent())] {
								if cv := st.In.(ssa.CallInstruction).Value(); cv != nil {
									work = append(work, cv)
								}
							}
						case *ssa.Store:
							if al, ok := y.Addr.(*ssa.Alloc); ok && al.Referrers() != nil {
								for _, l := range *al.Referrers() {
									if u, ok := l.(*ssa.UnOp); ok {
										work = append(work, u)
									}
								}
							}
						}
					}
				}
				if isWrite {
					uses[name].writes++
				} else {
					uses[name].reads++ // Get/Delete/Seek by full key
				}
			}
		}
		sort.Strings(order)
		for _, name := range order {
			u := uses[name]
			n++
			c.Check(!(u.reads > 0 && u.writes == 0), "C12.keyfmt", name+":read-implies-written", u.pos, itoa(u.writes)+" store site(s), "+itoa(u.reads)+" read/delete/decode site(s)", "key format "+name+" is decoded / looked up / deleted at "+itoa(u.reads)+" site(s) but no code path stores a key of this format: the records its readers rely on (for the multipart node log: the list of nodes to remove when a restore is aborted or found half-done at start-up) never exist")
		}
	}
	c.Floor("C12.keyfmt", n, 10, "key formats of the node databases")
}

// c13Hops: the badger backend finds a multi-hop write log path by searching
// from the end root towards the start root; the hops must be replayed in the
// opposite order (start towards end), otherwise a key written in two hops ends
// with the older value (F10).
func c13Hops(c *Ctx) { hopsRule(c, "C13.hops") }

func hopsRule(c *Ctx, rule string) {
	search := c.needFn(rule, "storage/mkvs/db/badger.(*badgerNodeDB).GetWriteLog$2")
	if search == nil {
		return
	}
	// search direction: the next item's end root is the decoded START root of the stored log key
	towardsStart := false
	appendsAtEnd, prepends := false, false
	for _, b := range search.Blocks {
		for _, in := range b.Instrs {
			st, ok := in.(*ssa.Store)
			if !ok {
				continue
			}
			fa, ok := st.Addr.(*ssa.FieldAddr)
			if !ok || !strings.HasSuffix(fieldKey(fa.X.Type(), fa.Field), "wlItem.endRootHash") && !strings.HasSuffix(fieldKey(fa.X.Type(), fa.Field), "wlItem.logKeys") {
				continue
			}
			switch fieldName(fa.X.Type(), fa.Field) {
			case "endRootHash":
				// value loaded from the alloc passed as the third decode target
				if ld, ok := st.Val.(*ssa.UnOp); ok {
					if al, ok := ld.X.(*ssa.Alloc); ok {
						for _, call := range findCalls(search, "common/keyformat.(*KeyFormat).Decode") {
							els := variadicElems(allArgs(call)[len(allArgs(call))-1])
							if len(els) == 3 {
								if mi, ok := els[2].(*ssa.MakeInterface); ok && mi.X == ssa.Value(al) {
									towardsStart = true
								}
							}
						}
					}
				}
			case "logKeys":
				if ap, ok := st.Val.(*ssa.Call); ok && calleeNameCommon(&ap.Call) == "builtin.append" {
					if loadsField(ap.Call.Args[0], "logKeys") {
						appendsAtEnd = true
					} else if loadsField(ap.Call.Args[len(ap.Call.Args)-1], "logKeys") {
						prepends = true
					}
				}
			}
		}
	}
	c.Check(towardsStart && (appendsAtEnd != prepends), rule, fname(search)+":search direction and collection order recognised", c.P.Pos(search.Pos()), "the search walks from the end root towards the start root and collects hop keys by "+map[bool]string{true: "appending", false: "prepending"}[appendsAtEnd], "the structure of the multi-hop write log search is not recognised (direction or collection order)")
	if !towardsStart || appendsAtEnd == prepends {
		return
	}
	// replay direction: the stores to the captured index variable of the getter closure
	getter := c.needFn(rule, "storage/mkvs/db/badger.(*badgerNodeDB).GetWriteLog$2$1")
	if getter == nil {
		return
	}
	// the index variable: the captured variable whose value indexes the collected hop keys in the getter
	var idxVar *ssa.FreeVar
	for _, b := range getter.Blocks {
		for _, in := range b.Instrs {
			var x, idx ssa.Value
			switch v := in.(type) {
			case *ssa.IndexAddr:
				x, idx = v.X, v.Index
			case *ssa.Index:
				x, idx = v.X, v.Index
			default:
				continue
			}
			if !loadsField(x, "logKeys") {
				continue
			}
			if u, ok := idx.(*ssa.UnOp); ok {
				if fv, ok := u.X.(*ssa.FreeVar); ok {
					idxVar = fv
				}
			}
		}
	}
	if idxVar == nil {
		c.Fail(rule, fname(getter)+":hops replayed from the start root towards the end root", c.P.Pos(getter.Pos()), "the captured variable that indexes the collected hop keys was not found in the getter closure (unresolved anchor)")
		return
	}
	dec, inc := false, false
	for _, b := range getter.Blocks {
		for _, in := range b.Instrs {
			st, ok := in.(*ssa.Store)
			if !ok {
				continue
			}
			fv, ok := st.Addr.(*ssa.FreeVar)
			if !ok || fv != idxVar {
				continue
			}
			if bo, ok := st.Val.(*ssa.BinOp); ok {
				if k, isK := constInt(bo.Y); isK && k == 1 {
					switch bo.Op.String() {
					case "-":
						dec = true
					case "+":
						inc = true
					}
				}
			}
		}
	}
	// initial value in the search closure: what is stored into the variable bound to that capture
	var idxAlloc ssa.Value
	for _, b := range search.Blocks {
		for _, in := range b.Instrs {
			mc, ok := in.(*ssa.MakeClosure)
			if !ok || mc.Fn != ssa.Value(getter) {
				continue
			}
			for k, fv := range getter.FreeVars {
				if fv == idxVar && k < len(mc.Bindings) {
					idxAlloc = mc.Bindings[k]
				}
			}
		}
	}
	startsAtLast, startsAtZero := false, true
	for _, b := range search.Blocks {
		for _, in := range b.Instrs {
			st, ok := in.(*ssa.Store)
			if !ok {
				continue
			}
			if idxAlloc != nil && st.Addr == idxAlloc {
				startsAtZero = false
				if bo, ok := st.Val.(*ssa.BinOp); ok && bo.Op.String() == "-" {
					if k, isK := constInt(bo.Y); isK && k == 1 {
						if ln, ok := bo.X.(*ssa.Call); ok && calleeNameCommon(&ln.Call) == "builtin.len" && loadsField(ln.Call.Args[0], "logKeys") {
							startsAtLast = true
						}
					}
				}
				if k, isK := constInt(st.Val); isK && k == 0 {
					startsAtZero = true
				}
			}
		}
	}
	descending := dec && !inc && startsAtLast
	ascending := inc && !dec && startsAtZero
	ok := (appendsAtEnd && descending) || (prepends && ascending)
	c.Check(ok, rule, fname(getter)+":hops replayed from the start root towards the end root", c.P.Pos(getter.Pos()), "hop keys are collected end→start and replayed in the opposite order", "the hops of a multi-hop write log are replayed in the order they were discovered (end root first): a key written in both hops ends with the older value and the served log does not reproduce the end root")
}

// c13Resolvable: pathbadger's internal write log refers to inserted leaves by
// their database key; a leaf that has none (embedded in an internal node and
// loaded from the database: "invalid" pointer) must not be recorded that way,
// or the log cannot be served (F14).
func c13Resolvable(c *Ctx) {
	const rule = "C13.resolve"
	fn := c.needFn(rule, "storage/mkvs/db/pathbadger.makeInternalWriteLog")
	if fn == nil {
		return
	}
	keys := CallsTo(fn, "iptr.dbKey()", "storage/mkvs/db/pathbadger.(*dbPtr).dbKey", "")
	c.GuardedByAny(rule, fn, "!iptr.isInvalid()", []string{`^!storage/mkvs/db/pathbadger\.\(\*dbPtr\)\.isInvalid\(.*InsertedNode\.DBInternal\.`}, keys, "a write log entry may refer to a leaf by its database key only if the leaf has one")
	// a root node (of this or of an earlier version) is stored under its root hash, not under a node key (F29)
	c.GuardedByAny(rule, fn, "!iptr.isRoot()", []string{`^!storage/mkvs/db/pathbadger\.\(\*dbPtr\)\.isRoot\(.*InsertedNode\.DBInternal\.`}, keys, "a write log entry may refer to a leaf by its database key only if the leaf can be looked up by that key: a root node is stored under its root hash")
	// and the reader knows every entry kind the writer produces
	wk := map[string]bool{}
	for _, b := range blocksIP(fn) {
		for _, in := range b.Instrs {
			if st, ok := in.(*ssa.Store); ok {
				if ia, ok := st.Addr.(*ssa.IndexAddr); ok {
					if k, isK := constInt(st.Val); isK && strings.Contains(typeStr(ia.X.Type()), "[1]byte") {
						wk[itoa(int(k))] = true
					}
				}
			}
		}
	}
	rd := c.needFn(rule, "storage/mkvs/db/pathbadger.(*badgerNodeDB).GetWriteLog")
	if rd == nil {
		return
	}
	rk := map[string]bool{}
	for _, b := range rd.Blocks {
		if iff := lastIf(b); iff != nil {
			if bo, ok := iff.Cond.(*ssa.BinOp); ok && bo.Op == token.EQL {
				if k, isK := constInt(bo.Y); isK && strings.HasSuffix(vstr(bo.X), "[0]") {
					rk[itoa(int(k))] = true
				}
			}
		}
	}
	var missing []string
	for k := range wk {
		if !rk[k] {
			missing = append(missing, k)
		}
	}
	sort.Strings(missing)
	c.Check(len(wk) >= 2 && len(missing) == 0, rule, "pathbadger write log entry kinds: written ⊆ read", c.P.Pos(rd.Pos()), "every entry kind produced by makeInternalWriteLog {"+joinKeys(wk)+"} has an arm in GetWriteLog", "GetWriteLog has no arm for entry kind(s) "+strings.Join(missing, ", ")+" that makeInternalWriteLog produces")
}

// loadsField: v is (a load of) the named field of some struct value.
func loadsField(v ssa.Value, field string) bool {
	switch x := v.(type) {
	case *ssa.UnOp:
		if fa, ok := x.X.(*ssa.FieldAddr); ok {
			return fieldName(fa.X.Type(), fa.Field) == field
		}
	case *ssa.Field:
		return fieldName(x.X.Type(), x.Field) == field
	}
	return false
}

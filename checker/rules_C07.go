package main

import (
	"fmt"
	"go/token"
	"golang.org/x/tools/go/ssa"
	"regexp"
	"sort"
	"strings"
)

const (
	bWB = "github.com/dgraph-io/badger/v4.(*WriteBatch)"
	bTX = "github.com/dgraph-io/badger/v4.(*Txn)"
	bDB = "github.com/dgraph-io/badger/v4.(*DB)"

	reMetaBatch    = `NewWriteBatchAt\([^,]*,\d+\)`
	reVersionBatch = `NewWriteBatchAt\([^,]*,[^)]*versionToTs`
)

var reMetaKeyed = regexp.MustCompile(`global:storage/mkvs/db/badger\.(rootUpdatedNodesKeyFmt|rootsMetadataKeyFmt|metadataKeyFmt)`)

func union(name string, evs ...Ev) Ev {
	out := Ev{Name: name}
	seen := map[ssa.Instruction]bool{}
	for _, e := range evs {
		if out.Fn == nil {
			out.Fn = e.Fn
		}
		for _, i := range e.Ins {
			if !seen[i] {
				seen[i] = true
				out.Ins = append(out.Ins, i)
			}
		}
	}
	return out
}

// closureCallsContaining returns the calls in fn whose callee is an anonymous
// function of fn that (transitively) contains a call to one of callees.
func closureCallsContaining(fn *ssa.Function, name string, callees ...string) Ev {
	ev := Ev{Name: name, Fn: fn}
	has := func(a *ssa.Function) bool {
		fs := append([]*ssa.Function{a}, anonFuncs(a)...)
		for _, f := range fs {
			if len(findCalls(f, callees...)) > 0 {
				return true
			}
		}
		return false
	}
	for _, c := range callsIn(fn) {
		if _, isDefer := c.(*ssa.Defer); isDefer {
			continue
		}
		var target *ssa.Function
		switch v := c.Common().Value.(type) {
		case *ssa.MakeClosure:
			target, _ = v.Fn.(*ssa.Function)
		case *ssa.Function:
			if v.Parent() == fn {
				target = v
			}
		}
		if target != nil && has(target) {
			ev.Ins = append(ev.Ins, c)
		}
	}
	return ev
}

func init() { register("C07", rulesC07) }

func rulesC07(c *Ctx) {
	c.Explain = append(c.Explain,
		"C07 (crash safety of the node database) — decided: the ORDER of durable writes on every CFG path of Commit/Finalize/Prune/StartMultipartInsert/cleanMultipartLocked/New of both backends and of checkpoint.restoreChunk: data batches are flushed (success edge taken) before the metadata transaction is committed; in-memory multipart state is set only after the durable one; pathbadger commits the pending seq-no before flushing the root node and flushes the meta batch before the node batch; pathbadger Finalize flushes copies before any delete and flushes deletes before the metadata commit; multipart leftovers are cleaned on open before New returns successfully.",
		"NOT decided: that this ordering is sufficient for recovery after each crash point (idempotent retry, readability of finalized versions), badger's own durability, NoFsync semantics.")
	const rule = "C07.order"

	// ---------------- badger backend
	if fn := c.needFn(rule, "storage/mkvs/db/badger.(*badgerBatch).Commit"); fn != nil {
		batFlush := CallsTo(fn, "bat.Flush", bWB+".Flush", `param:ba\.bat\b`)
		mpFlush := CallsTo(fn, "multipartNodes.Flush", bWB+".Flush", `param:ba\.multipartNodes\b`)
		commit := CallsTo(fn, "tx.CommitAt", bTX+".CommitAt", "")
		c.MustPrecede(rule, fn, batFlush, commit, "node batch must be durably flushed before the roots metadata is committed (metadata last, so a failed commit can be retried)")
		c.NeverAfter(rule, fn, mpFlush, batFlush, "the multipart restore journal must be flushed before the nodes it describes")
		if !mpFlush.Empty() {
			// every path to bat.Flush on which multipartNodes != nil passes mpFlush✓: checked as
			// "bat.Flush is not reachable from the multipartNodes!=nil true edge without mpFlush✓"
			c.Separated(rule, fn, CallsTo(fn, "multipartNodes.Set", bWB+".Set", `param:ba\.multipartNodes\b`), batFlush, mpFlush, "journal entries must be durable before the node batch is flushed")
		} else {
			c.Fail(rule, fname(fn)+":multipartNodes.Flush", c.P.Pos(fn.Pos()), "multipart journal flush not found in badger Commit")
		}
		sets := union("WriteBatch.Set", CallsTo(fn, "bat.Set", bWB+".Set", `param:ba\.bat\b`), CallsTo(fn, "multipartNodes.Set", bWB+".Set", `param:ba\.multipartNodes\b`))
		c.NeverAfter(rule, fn, sets, batFlush, "no write may be queued on a batch after it was flushed")
		c.NeverAfter(rule, fn, union("Flush", batFlush, mpFlush), commit, "metadata commit is the last durable write of Commit")
		txw := union("tx.Set/save", CallsTo(fn, "tx.Set", bTX+".Set", ""), CallsTo(fn, "rootsMeta.save", "storage/mkvs/db/badger.(*rootsMetadata).save", ""))
		c.NeverAfter(rule, fn, txw, commit, "no metadata write after the metadata commit")
	}
	c07FinalizedKept(c, "storage/mkvs/db/badger")
	c07ResolvedVersion(c, "storage/mkvs/db/badger")
	c07IterKey(c)
	c07Repeat(c, "storage/mkvs/db/badger")
	c07Repeat(c, "storage/mkvs/db/pathbadger")
	c07RepeatSupport(c)
	c07Round3(c, c.P.BuildIndex())
	c07Round4(c, c.P.BuildIndex())
	c07Round5(c, "C07.recover")
	if fn := c.needFn(rule, "storage/mkvs/db/badger.(*badgerNodeDB).Finalize"); fn != nil {
		flush := CallsTo(fn, "versionBatch.Flush", bWB+".Flush", "NewWriteBatchAt")
		commit := CallsTo(fn, "tx.CommitAt", bTX+".CommitAt", "")
		c.MustPrecede(rule, fn, flush, commit, "node removals must be flushed before the last-finalized-version metadata is committed")
		c.MustPrecede(rule, fn, commit, CallsTo(fn, "cleanMultipartLocked", "storage/mkvs/db/badger.(*badgerNodeDB).cleanMultipartLocked", ""), "multipart state is cleaned only after finalization is durable")
		dels := union("versionBatch.Delete", CallsTo(fn, "versionBatch.Delete", bWB+".Delete", ""), closureCallsContaining(fn, "closure{versionBatch.Delete}", bWB+".Delete"))
		c.NeverAfter(rule, fn, dels, flush, "no removal may be queued after the batch was flushed")
		c.MustPrecede(rule, fn, CallsTo(fn, "setLastFinalizedVersion", "storage/mkvs/db/badger.(*metadata).setLastFinalizedVersion", ""), commit, "the committed metadata must carry the new last finalized version")
	}
	if fn := c.needFn(rule, "storage/mkvs/db/badger.(*badgerNodeDB).Prune"); fn != nil {
		flush := CallsTo(fn, "batch.Flush", bWB+".Flush", "NewWriteBatchAt")
		commit := CallsTo(fn, "tx.CommitAt", bTX+".CommitAt", "")
		c.MustPrecede(rule, fn, flush, commit, "pruned nodes must be flushed before the earliest-version metadata is committed")
		c.MustPrecede(rule, fn, commit, CallsTo(fn, "SetDiscardTs", bDB+".SetDiscardTs", ""), "discard timestamp may advance only after the prune is durable")
		dels := union("batch.Delete", CallsTo(fn, "batch.Delete", bWB+".Delete", ""), closureCallsContaining(fn, "closure{batch.Delete}", bWB+".Delete"))
		c.NeverAfter(rule, fn, dels, flush, "no removal may be queued after the batch was flushed")
		c.MustPrecede(rule, fn, CallsTo(fn, "setEarliestVersion", "storage/mkvs/db/badger.(*metadata).setEarliestVersion", ""), commit, "the committed metadata must carry the new earliest version")
	}
	if fn := c.needFn(rule, "storage/mkvs/db/badger.(*badgerNodeDB).cleanMultipartLocked"); fn != nil {
		flush := CallsTo(fn, "batch.Flush", bWB+".Flush", "NewWriteBatchAt")
		commit := CallsTo(fn, "metaTx.CommitAt", bTX+".CommitAt", "")
		c.MustPrecede(rule, fn, flush, commit, "journal/node removals flushed before the multipart flag is cleared durably")
		c.MustPrecede(rule, fn, commit, StoresTo(fn, "d.multipartVersion=", "storage/mkvs/db/badger.badgerNodeDB.multipartVersion"), "in-memory multipart flag cleared only after the durable one")
	}
	if fn := c.needFn(rule, "storage/mkvs/db/badger.(*badgerNodeDB).StartMultipartInsert"); fn != nil {
		commit := CallsTo(fn, "tx.CommitAt", bTX+".CommitAt", "")
		c.MustPrecede(rule, fn, commit, StoresTo(fn, "d.multipartVersion=", "storage/mkvs/db/badger.badgerNodeDB.multipartVersion"), "in-memory multipart version set only after the durable one")
		c.MustPrecede(rule, fn, CallsTo(fn, "setMultipartVersion", "storage/mkvs/db/badger.(*metadata).setMultipartVersion", ""), commit, "the committed metadata carries the multipart version")
	}
	for _, pk := range []string{"badger", "pathbadger"} {
		if fn := c.needFn(rule, "storage/mkvs/db/"+pk+".New"); fn != nil {
			clean := CallsArg(fn, "cleanMultipartLocked(true)", "storage/mkvs/db/"+pk+".(*badgerNodeDB).cleanMultipartLocked", 1, `^true\b`)
			if clean.Empty() {
				c.Fail(rule, fname(fn)+":cleanMultipartLocked(true)", c.P.Pos(fn.Pos()), "New does not clean multipart leftovers (with node removal) on open")
			} else {
				cut, _ := successCut(clean)
				for _, r := range Returns(fn) {
					cut.AddEdges(phiNonNilEdges(r)...)
				}
				hit := Reach(fn, nil, nil, anyOf(SuccessReturns(fn)), cut)
				c.Check(hit == nil, rule, fname(fn)+":cleanMultipartLocked(true)✓≺return-ok", c.P.InstrPos(clean.Ins[0]),
					"every success return of New passes cleanMultipartLocked(true)✓", "New can return a database without having cleaned multipart restore leftovers")
			}
		}
	}

	// badger: records stored at the metadata timestamp that a redo of the operation reads
	// (updated-nodes index, roots metadata, database metadata) are modified only through the
	// metadata transaction, i.e. atomically with the metadata commit — never through a
	// separately flushed write batch.
	for _, n := range []string{"(*badgerNodeDB).Finalize", "(*badgerNodeDB).Prune", "(*badgerBatch).Commit"} {
		fn := c.P.Fn("storage/mkvs/db/badger." + n)
		if fn == nil {
			continue
		}
		fns := append([]*ssa.Function{fn}, anonFuncs(fn)...)
		nops := 0
		okAll := true
		for _, f := range fns {
			for _, call := range callsIn(f) {
				cn := calleeName(call)
				if !strings.HasPrefix(cn, bWB+".") {
					continue
				}
				m := cn[len(bWB)+1:]
				if m != "Set" && m != "Delete" && m != "DeleteAt" && m != "SetEntryAt" && m != "SetEntry" {
					continue
				}
				nops++
				args := allArgs(call)
				if len(args) < 2 {
					continue
				}
				ks := vstr(args[1]) + " " + strings.Join(rootStrs(args[1]), " ")
				if reMetaKeyed.MatchString(ks) {
					okAll = false
					c.Fail(rule, fname(fn)+":meta-keyed-record-via-batch", c.P.InstrPos(call), "a metadata-timestamp record ("+reMetaKeyed.FindString(ks)+") is modified through a separately flushed write batch instead of the metadata transaction: a crash between the batch flush and the metadata commit leaves the operation neither done nor repeatable")
				}
			}
		}
		if okAll {
			c.OK(rule, fname(fn)+":meta-keyed-record-via-batch", c.P.Pos(fn.Pos()), "none of the "+itoa(nops)+" write-batch operations touches updated-nodes index / roots metadata / db metadata keys")
		}
	}

	// ---------------- pathbadger backend
	if fn := c.needFn(rule, "storage/mkvs/db/pathbadger.(*badgerBatch).Commit"); fn != nil {
		batFlush := CallsTo(fn, "bat.Flush", bWB+".Flush", `param:ba\.bat\b`)
		metaFlush := CallsTo(fn, "batMeta.Flush", bWB+".Flush", `param:ba\.batMeta\b`)
		mcommit := CallsTo(fn, "meta.commit", "storage/mkvs/db/pathbadger.(*metadata).commit", "")
		setSeq := CallsTo(fn, "setPendingRootSeqNo", "storage/mkvs/db/pathbadger.(*metadata).setPendingRootSeqNo", "")
		c.MustPrecede(rule, fn, setSeq, mcommit, "pending root sequence number recorded before the metadata commit")
		c.MustPrecede(rule, fn, mcommit, batFlush, "pending root seq-no must be durable before the root node is stored (otherwise a root can exist with unknown seq-no)")
		c.MustPrecede(rule, fn, metaFlush, batFlush, "meta batch (updated-nodes index, write log) flushed before the batch carrying the root node")
		rootSet := CallsArg(fn, "Set(rootNodeKeyFmt)", bWB+".Set", 1, `global:storage/mkvs/db/pathbadger\.rootNodeKeyFmt`)
		if rootSet.Empty() {
			c.Fail(rule, fname(fn)+":Set(rootNodeKeyFmt)", c.P.Pos(fn.Pos()), "root node write not found in pathbadger Commit")
		} else {
			onBat := CallsTo(fn, "bat.Set", bWB+".Set", `param:ba\.bat\b`)
			okk := true
			for _, i := range rootSet.Ins {
				found := false
				for _, j := range onBat.Ins {
					if i == j {
						found = true
					}
				}
				if !found {
					okk = false
				}
			}
			c.Check(okk, rule, fname(fn)+":Set(rootNodeKeyFmt)@bat", c.P.InstrPos(rootSet.Ins[0]), "root node is queued on the batch that is flushed last", "root node is not written through ba.bat (the batch flushed last): root could become visible before its metadata")
			c.MustPrecede(rule, fn, mcommit, rootSet, "root node queued only after seq-no commit")
		}
		sets := union("WriteBatch.Set", CallsTo(fn, "bat.Set", bWB+".Set", `param:ba\.bat\b`), CallsTo(fn, "batMeta.Set", bWB+".Set", `param:ba\.batMeta\b`),
			CallsTo(fn, "storeInternalWriteLog", "storage/mkvs/db/pathbadger.storeInternalWriteLog", ""))
		c.NeverAfter(rule, fn, sets, union("Flush", batFlush, metaFlush), "no write may be queued on a batch after a flush")
	}
	if fn := c.needFn(rule, "storage/mkvs/db/pathbadger.(*badgerNodeDB).Finalize"); fn != nil {
		vFlush := CallsTo(fn, "batch.Flush", bWB+".Flush", reVersionBatch)
		mFlush := CallsTo(fn, "batchMeta.Flush", bWB+".Flush", reMetaBatch)
		copySet := CallsArg(fn, "batch.Set(finalizedNodeKeyFmt)[copy]", bWB+".Set", 1, `global:storage/mkvs/db/pathbadger\.finalizedNodeKeyFmt`)
		vDel := CallsTo(fn, "batch.Delete", bWB+".Delete", reVersionBatch)
		mDelParent := CallsTo(fn, "batchMeta.Delete", bWB+".Delete", reMetaBatch)
		mDelClosure := closureCallsContaining(fn, "closure{batchMeta.Delete}", bWB+".Delete")
		mcommit := CallsTo(fn, "meta.commit", "storage/mkvs/db/pathbadger.(*metadata).commit", "")
		setLF := CallsTo(fn, "setLastFinalizedVersion", "storage/mkvs/db/pathbadger.(*metadata).setLastFinalizedVersion", "")
		// copy first, flush, delete afterwards
		c.Separated(rule, fn, copySet, union("Delete(node/pending/index)", vDel, mDelParent), vFlush, "copied nodes must be durable before lone/pending nodes are deleted (finalization must be re-doable after a crash)")
		// deletes flushed before metadata
		c.Separated(rule, fn, vDel, mcommit, vFlush, "node deletions flushed before last-finalized metadata is committed")
		c.Separated(rule, fn, union("batchMeta.Delete*", mDelParent, mDelClosure), mcommit, mFlush, "meta deletions flushed before last-finalized metadata is committed")
		c.Separated(rule, fn, copySet, mcommit, vFlush, "copies flushed before metadata")
		c.MustPrecede(rule, fn, setLF, mcommit, "committed metadata carries the new last finalized version")
		c.NeverAfter(rule, fn, union("WriteBatch ops", copySet, vDel, mDelParent, mDelClosure, vFlush, mFlush), mcommit, "metadata commit is the last durable write of Finalize (before multipart cleanup)")
		c.MustPrecede(rule, fn, mcommit, CallsTo(fn, "cleanMultipartLocked", "storage/mkvs/db/pathbadger.(*badgerNodeDB).cleanMultipartLocked", ""), "multipart state cleaned only after finalization is durable")
	}
	if fn := c.needFn(rule, "storage/mkvs/db/pathbadger.(*badgerNodeDB).Prune"); fn != nil {
		vFlush := CallsTo(fn, "batch.Flush", bWB+".Flush", reVersionBatch)
		mFlush := CallsTo(fn, "batchMeta.Flush", bWB+".Flush", reMetaBatch)
		vDel := CallsTo(fn, "batch.Delete", bWB+".Delete", reVersionBatch)
		mDel := CallsTo(fn, "batchMeta.Delete", bWB+".Delete", reMetaBatch)
		mcommit := CallsTo(fn, "meta.commit", "storage/mkvs/db/pathbadger.(*metadata).commit", "")
		c.Separated(rule, fn, vDel, mcommit, vFlush, "node deletions flushed before earliest-version metadata is committed")
		c.Separated(rule, fn, mDel, mcommit, mFlush, "write-log deletions flushed before earliest-version metadata is committed")
		c.MustPrecede(rule, fn, vFlush, mcommit, "batch flushed before metadata")
		c.MustPrecede(rule, fn, mFlush, mcommit, "meta batch flushed before metadata")
		c.MustPrecede(rule, fn, CallsTo(fn, "setEarliestVersion", "storage/mkvs/db/pathbadger.(*metadata).setEarliestVersion", ""), mcommit, "committed metadata carries the new earliest version")
		c.MustPrecede(rule, fn, mcommit, CallsTo(fn, "SetDiscardTs", bDB+".SetDiscardTs", ""), "discard timestamp may advance only after the prune is durable")
	}
	if fn := c.needFn(rule, "storage/mkvs/db/pathbadger.(*badgerNodeDB).cleanMultipartLocked"); fn != nil {
		flush := CallsTo(fn, "batch.Flush", bWB+".Flush", "NewWriteBatchAt")
		mcommit := CallsTo(fn, "meta.commit", "storage/mkvs/db/pathbadger.(*metadata).commit", "")
		c.MustPrecede(rule, fn, flush, mcommit, "journal/node removals flushed before the multipart flag is cleared durably")
		c.MustPrecede(rule, fn, CallsTo(fn, "setMultipart", "storage/mkvs/db/pathbadger.(*metadata).setMultipart", ""), mcommit, "cleared multipart info is what is committed")
		c.MustPrecede(rule, fn, mcommit, StoresTo(fn, "d.multipartVersion=", "storage/mkvs/db/pathbadger.badgerNodeDB.multipartVersion"), "in-memory multipart flag cleared only after the durable one")
	}
	if fn := c.needFn(rule, "storage/mkvs/db/pathbadger.(*badgerNodeDB).StartMultipartInsert"); fn != nil {
		mcommit := CallsTo(fn, "meta.commit", "storage/mkvs/db/pathbadger.(*metadata).commit", "")
		c.MustPrecede(rule, fn, mcommit, StoresTo(fn, "d.multipartVersion=", "storage/mkvs/db/pathbadger.badgerNodeDB.multipartVersion"), "in-memory multipart version set only after the durable one")
		c.MustPrecede(rule, fn, CallsTo(fn, "setMultipart", "storage/mkvs/db/pathbadger.(*metadata).setMultipart", ""), mcommit, "committed metadata carries the multipart version and reserved seq-nos")
	}
	if fn := c.needFn(rule, "storage/mkvs/db/pathbadger.(*metadata).commit"); fn != nil {
		set := CallsTo(fn, "tx.Set(metadata)", bTX+".Set", "")
		commit := CallsTo(fn, "tx.CommitAt", bTX+".CommitAt", "")
		c.MustPrecede(rule, fn, set, commit, "metadata value written into the transaction before it is committed")
		// failure of either must panic, never continue silently
		for _, ev := range []Ev{set, commit} {
			for _, call := range ev.Calls() {
				fe, found := FailEdges(call)
				okp := found
				if found {
					// from the failure edges no Return may be reachable (must panic)
					if hit := Reach(fn, nil, fe, func(i ssa.Instruction) bool { _, r := i.(*ssa.Return); return r }, nil); hit != nil {
						okp = false
					}
				}
				c.Check(okp, rule, fname(fn)+":"+ev.Name+"-failure-panics", c.P.InstrPos(call), "failure cannot be ignored (panics)", "a failed metadata "+ev.Name+" is ignored: callers treat commit() as infallible")
			}
		}
	}

	// ---------------- checkpoint chunk restore
	if fn := c.needFn(rule, "storage/mkvs/checkpoint.restoreChunk"); fn != nil {
		commit := CallsTo(fn, "batch.Commit", "storage/mkvs/db/api.(Batch).Commit", "")
		do := CallsTo(fn, "doRestoreChunk", "storage/mkvs/checkpoint.doRestoreChunk", "")
		c.MustPrecede(rule, fn, do, commit, "chunk nodes are queued (successfully) before the chunk batch is committed")
		c.NeverAfter(rule, fn, do, commit, "batch commit is the last write of restoreChunk")
		// defer batch.Reset()
		hasReset := false
		for _, call := range callsIn(fn) {
			if d, ok := call.(*ssa.Defer); ok && calleeName(d) == "storage/mkvs/db/api.(Batch).Reset" {
				hasReset = true
			}
		}
		c.Check(hasReset, rule, fname(fn)+":defer batch.Reset", c.P.Pos(fn.Pos()), "batch is reset on every exit", "restoreChunk no longer resets its batch on exit (a failed chunk would keep its multipart lock / queued writes)")
	}
}

// c07FinalizedKept: the clean-up of multipart restore leftovers deletes the
// logged nodes only under a flag that is forced false when the multipart
// version has already been finalized. Finalize makes "last finalized = V"
// durable before it clears the multipart state; a crash in between must not
// make the next start-up delete V's nodes (F9).
func c07FinalizedKept(c *Ctx, pk string) {
	const rule = "C07.recover"
	fn := c.needFn(rule, pk+".(*badgerNodeDB).cleanMultipartLocked")
	if fn == nil {
		return
	}
	var dels []ssa.CallInstruction
	for _, call := range callsIn(fn) {
		if calleeName(call) != bWB+".Delete" {
			continue
		}
		dels = append(dels, call)
	}
	if len(dels) == 0 {
		c.Fail(rule, fname(fn)+":node deletions", c.P.Pos(fn.Pos()), "no node deletion found in the multipart clean-up")
		return
	}
	finRe := regexp.MustCompile(`getLastFinalizedVersion\(param:d\.meta\)#0 >= phi\(\*param:d\.multipartVersion\|`)
	for i, call := range dels {
		ok := false
		why := "not under a flag"
		for _, h := range heldCondVals(call) {
			phi, isPhi := h.Cond.(*ssa.Phi)
			if !isPhi || !h.Pol {
				continue
			}
			why = "the flag " + vstrShort(phi) + " is not forced false when the multipart version is already finalized"
			for ei, e := range phi.Edges {
				k, isK := e.(*ssa.Const)
				if !isK || k.Value == nil || vstr(k) != "false" {
					continue
				}
				pred := phi.Block().Preds[ei]
				// the false comes from a block entered only when lastFinalized >= version held
				var at ssa.Instruction
				if len(pred.Instrs) > 0 {
					at = pred.Instrs[len(pred.Instrs)-1]
				}
				held := false
				if at != nil {
					for _, hh := range heldCondVals(at) {
						if matchEither(finRe, normCond(hh.Cond, hh.Pol)) {
							held = true
						}
					}
				}
				if iff := lastIf(pred); iff != nil {
					for si, sb := range pred.Succs {
						if sb == phi.Block() && matchEither(finRe, normCond(iff.Cond, si == 0)) {
							held = true
						}
					}
				}
				if held {
					ok = true
				}
			}
		}
		c.Check(ok, rule, fname(fn)+":node deletion #"+itoa(i+1)+" only if the multipart version is not finalized", c.P.InstrPos(call), "logged nodes are deleted only under a flag that is false once the multipart version is finalized", "the multipart clean-up can delete the logged nodes although the multipart version is already finalized ("+why+"): a crash between Finalize's metadata commit and its multipart clean-up makes the next start-up delete the finalized version's nodes")
	}
}

// c07ResolvedVersion: the multipart clean-up runs both with the in-memory
// multipart version set (abort, finalize) and, at start-up, with only the
// persisted one. Whatever it writes or deletes must be addressed with the
// resolved version, never with the in-memory field alone (zero at start-up).
func c07ResolvedVersion(c *Ctx, pk string) {
	const rule = "C07.recover"
	fn := c.needFn(rule, pk+".(*badgerNodeDB).cleanMultipartLocked")
	if fn == nil {
		return
	}
	bad := 0
	n := 0
	for _, b := range blocksIP(fn) {
		for _, in := range b.Instrs {
			u, ok := in.(*ssa.UnOp)
			if !ok || u.Op != token.MUL || vstr(u) != "*param:d.multipartVersion" || u.Referrers() == nil {
				continue
			}
			n++
			for _, r := range *u.Referrers() {
				switch r.(type) {
				case *ssa.BinOp, *ssa.Phi, *ssa.If:
					// comparison / resolution
				default:
					bad++
					c.Fail(rule, fname(fn)+":in-memory multipart version used directly", c.P.InstrPos(r.(ssa.Instruction)), "the in-memory multipart version (zero when the clean-up runs at start-up) is used for a timestamp or key instead of the resolved version: the start-up clean-up of an interrupted restore would address the wrong records")
				}
			}
		}
	}
	if bad == 0 {
		c.Check(n > 0, rule, fname(fn)+":only the resolved multipart version is used", c.P.Pos(fn.Pos()), itoa(n)+" load(s) of the in-memory field, used only to resolve the version", "no use of the multipart version found")
	}
}

// c07IterKey: a badger iterator item's Key() is only valid until the iterator
// advances. It may be decoded or compared on the spot, but it must not be
// handed to anything that keeps it (a write batch or transaction, an append,
// a store into a struct or map): KeyCopy has to be used for that (F16).
func c07IterKey(c *Ctx) {
	const rule = "C07.iterkey"
	n, bad := 0, 0
	for _, pk := range []string{"storage/mkvs/db/badger", "storage/mkvs/db/pathbadger", "storage/mkvs/db/api"} {
		for _, fn := range c.P.FuncsInPkg(pk) {
			for _, call := range callsIn(fn) {
				if calleeName(call) != "github.com/dgraph-io/badger/v4.(*Item).Key" {
					continue
				}
				v := call.Value()
				if v == nil {
					continue
				}
				n++
				c.Analysed[fname(fn)] = true
				seen := map[ssa.Value]bool{}
				work := []ssa.Value{v}
				for len(work) > 0 {
					x := work[len(work)-1]
					work = work[:len(work)-1]
					if seen[x] || x.Referrers() == nil {
						continue
					}
					seen[x] = true
					for _, r := range *x.Referrers() {
						switch y := r.(type) {
						case *ssa.Phi:
							work = append(work, y)
						case *ssa.ChangeType:
							work = append(work, y)
						case *ssa.Slice:
							work = append(work, y) // a sub-slice shares the buffer
						case *ssa.Store:
							if y.Val != x {
								continue
							}
							if al, ok := y.Addr.(*ssa.Alloc); ok && !al.Heap {
								// a local variable: follow its loads
								if al.Referrers() != nil {
									for _, l := range *al.Referrers() {
										if u, ok := l.(*ssa.UnOp); ok {
											work = append(work, u)
										}
									}
								}
								continue
							}
							if ia, ok := y.Addr.(*ssa.IndexAddr); ok {
								if _, isAl := ia.X.(*ssa.Alloc); isAl {
									// element of a call-site variadic slice: follow to the call
									if al := ia.X.(*ssa.Alloc); al.Referrers() != nil {
										for _, l := range *al.Referrers() {
											if sl, ok := l.(*ssa.Slice); ok {
												work = append(work, sl)
											}
										}
									}
									continue
								}
							}
							bad++
							c.Fail(rule, fname(fn)+":Item.Key() stored", c.P.InstrPos(y), "an iterator item's key (valid only until the iterator advances) is stored; use KeyCopy")
						case *ssa.MapUpdate:
							bad++
							c.Fail(rule, fname(fn)+":Item.Key() stored in a map", c.P.InstrPos(y), "an iterator item's key (valid only until the iterator advances) is stored; use KeyCopy")
						case ssa.CallInstruction:
							cn := calleeName(y)
							switch {
							case cn == "builtin.append":
								bad++
								c.Fail(rule, fname(fn)+":Item.Key() appended", c.P.InstrPos(y), "an iterator item's key (valid only until the iterator advances) is appended to a slice; use KeyCopy")
							case strings.HasPrefix(cn, "github.com/dgraph-io/badger/v4.(*WriteBatch).") || strings.HasPrefix(cn, "github.com/dgraph-io/badger/v4.(*Txn).Set") || strings.HasPrefix(cn, "github.com/dgraph-io/badger/v4.(*Txn).Delete") || strings.HasPrefix(cn, "github.com/dgraph-io/badger/v4.NewEntry"):
								bad++
								c.Fail(rule, fname(fn)+":Item.Key()→"+cn[strings.LastIndex(cn, ".")+1:], c.P.InstrPos(y), "an iterator item's key is handed to "+cn+", which keeps the reference until the batch/transaction is flushed, while the key is only valid until the iterator advances: the operation is applied to whatever key the buffer holds later (use KeyCopy)")
							}
						}
					}
				}
			}
		}
	}
	if bad == 0 {
		c.Check(n >= 4, rule, "Item.Key() never escapes", "", itoa(n)+" uses of an iterator item's key, all consumed on the spot (decode/compare)", "no use of badger Item.Key() found in the node databases")
	}
}

// c07Repeat: an operation that deletes records in a batch flushed before its
// metadata commit can be interrupted in between; when repeated it finds those
// records gone. Every look-up it (or what it calls) makes of a record format
// it deletes, and that fails on absence, must therefore be tolerated by the
// operation, or the operation can never be completed (F17).
func c07Repeat(c *Ctx, pk string) {
	const rule = "C07.repeat"
	const bKeyNotFound = "github.com/dgraph-io/badger/v4.ErrKeyNotFound"
	g := c.P.CallGraph()
	nReads := 0
	for _, op := range []string{"Prune", "Finalize"} {
		fn := c.needFn(rule, pk+".(*badgerNodeDB)."+op)
		if fn == nil {
			continue
		}
		fns := withClosures(fn)
		// D: formats of the records deleted through a write batch (flushed on its own,
		// before the transaction that carries the metadata is committed). Deletions made
		// in the metadata transaction itself become durable together with the metadata.
		D := map[string]bool{}
		for _, f := range fns {
			for _, call := range callsIn(f) {
				nm := calleeName(call)
				if nm != bWB+".Delete" && nm != bWB+".DeleteAt" {
					continue
				}
				badgerKeyFormatsOf(allArgs(call)[1], 0, map[ssa.Value]bool{}, D)
			}
		}
		c.Info(rule, fname(fn)+":batch-deleted formats", c.P.Pos(fn.Pos()), strings.Join(sortedKeys(D), ","))
		if len(D) == 0 {
			c.Fail(rule, fname(fn)+":batch-deleted formats", c.P.Pos(fn.Pos()), "no batch deletion with a recognisable key format found in "+op)
			continue
		}
		for _, f := range fns {
			for _, call := range callsIn(f) {
				nm := calleeName(call)
				var readers []*ssa.Function
				if nm == bTX+".Get" {
					readers = []*ssa.Function{f}
				} else if sc := call.Common().StaticCallee(); sc != nil && inModule(fpkgPath(sc)) && !strings.HasPrefix(fname(sc), fname(fn)) {
					readers, _ = g.Cone([]*ssa.Function{sc}, func(h *ssa.Function) bool {
						return !strings.HasPrefix(short(fpkgPath(h)), "storage/mkvs")
					})
				} else if call.Common().IsInvoke() {
					var starts []*ssa.Function
					for _, e := range g.succ[f] {
						if e.Site == call.(ssa.Instruction) {
							starts = append(starts, e.To)
						}
					}
					readers, _ = g.Cone(starts, func(h *ssa.Function) bool {
						return !strings.HasPrefix(short(fpkgPath(h)), "storage/mkvs")
					})
				}
				// which of the deleted formats does this call look up, and what does
				// the look-up report when the record is absent
				need := map[string]map[string]bool{} // sentinel -> formats
				for _, h := range readers {
					if short(fpkgPath(h)) != pk {
						continue
					}
					for _, kr := range keyReadsIn(h) {
						if h == f && kr.Call != call {
							continue
						}
						for _, fm := range kr.Fmts {
							if !D[fm] {
								continue
							}
							sents := []string{bKeyNotFound}
							if h != f {
								if s := errSentinelsReturned(h); len(s) > 0 {
									sents = s
								}
							}
							for _, s := range sents {
								if need[s] == nil {
									need[s] = map[string]bool{}
								}
								need[s][fm] = true
							}
						}
					}
				}
				if len(need) == 0 {
					continue
				}
				c.Analysed[fname(f)] = true
				ev := callErrValue(call)
				for _, sent := range sortedKeys2(need) {
					nReads++
					fms := strings.Join(sortedKeys(need[sent]), ",")
					inst := fname(fn) + ":" + strings.TrimPrefix(nm, "github.com/dgraph-io/badger/v4.") + " looks up " + shortFmts(fms) + " (absent → " + shortSentinel2(sent) + ")"
					if why, ok := c.Tabled("c07_repeat", rule+"|"+inst); ok {
						c.TabledOK(rule, inst, c.P.InstrPos(call), why)
						continue
					}
					if ev == nil {
						c.Fail(rule, inst, c.P.InstrPos(call), "the call's error value could not be identified")
						continue
					}
					ok, why := toleratesSentinel(c, f, ev, sent)
					c.Check(ok, rule, inst, c.P.InstrPos(call), why,
						op+" deletes "+shortFmts(fms)+" records in a batch that is flushed before the metadata commit; when the process dies in between and "+op+" is repeated, this look-up finds the record gone and "+why+": the operation can never be completed (and, for Prune, nothing can ever be pruned again)")
				}
			}
		}
	}
	if pk == "storage/mkvs/db/badger" {
		c.Floor(rule, nReads, 3, "look-ups of batch-deleted record formats in Prune/Finalize")
	}
}

func shortFmts(s string) string {
	parts := strings.Split(s, ",")
	for i, p := range parts {
		parts[i] = p[strings.LastIndex(p, ".")+1:]
	}
	return strings.Join(parts, ",")
}

func shortSentinel2(s string) string {
	if i := strings.LastIndex(s, "/"); i >= 0 {
		return s[i+1:]
	}
	return s
}

func sortedKeys2(m map[string]map[string]bool) []string {
	var out []string
	for k := range m {
		out = append(out, k)
	}
	sort.Strings(out)
	return out
}

// callErrValue: the error result of a call (the value itself, or the Extract
// of the error-typed component of a tuple).
func callErrValue(call ssa.CallInstruction) ssa.Value {
	v := call.Value()
	if v == nil {
		return nil
	}
	if isErrorType(v.Type()) {
		return v
	}
	if v.Referrers() != nil {
		for _, r := range *v.Referrers() {
			if ex, ok := r.(*ssa.Extract); ok && isErrorType(ex.Type()) {
				return ex
			}
		}
	}
	return nil
}

// carriesErr: does v hand on error e (directly, through a phi, an interface
// conversion, a defer spill or wrapped by fmt.Errorf)?
func carriesErr(v, e ssa.Value, d int) bool {
	if v == nil || d > 6 {
		return false
	}
	v = unspill(v)
	if v == e {
		return true
	}
	switch x := v.(type) {
	case *ssa.UnOp:
		// a load of a variable kept in memory: some store of e reaches it
		al, ok := x.X.(*ssa.Alloc)
		if !ok || x.Op != token.MUL || al.Referrers() == nil {
			return false
		}
		var stores []*ssa.Store
		for _, r := range *al.Referrers() {
			if st, ok := r.(*ssa.Store); ok && st.Addr == al {
				stores = append(stores, st)
			}
		}
		for _, st := range stores {
			if !carriesErr(st.Val, e, d+1) {
				continue
			}
			cut := NewCut()
			for _, o := range stores {
				if o != st {
					cut.AddInstr(o)
				}
			}
			if Reach(x.Parent(), st, nil, isInstr(x), cut) != nil {
				return true
			}
		}
	case *ssa.Phi:
		for _, ed := range x.Edges {
			if carriesErr(ed, e, d+1) {
				return true
			}
		}
	case *ssa.MakeInterface:
		return carriesErr(x.X, e, d+1)
	case *ssa.ChangeInterface:
		return carriesErr(x.X, e, d+1)
	case *ssa.Call:
		if f := x.Call.StaticCallee(); f != nil && f.String() == "fmt.Errorf" {
			for _, a := range variadicElems(x.Call.Args[len(x.Call.Args)-1]) {
				if carriesErr(a, e, d+1) {
					return true
				}
			}
		}
	}
	return false
}

// redefCut stops a walk where the instruction that defines e is executed
// again (the next loop iteration has a new error in the same SSA value).
func redefCut(e ssa.Value) *Cut {
	cut := NewCut()
	switch x := e.(type) {
	case *ssa.Extract:
		if in, ok := x.Tuple.(ssa.Instruction); ok {
			cut.AddInstr(in)
		}
	case ssa.Instruction:
		cut.AddInstr(x)
	}
	return cut
}

// toleratesSentinel: fn tests e against the sentinel (errors.Is or ==) and on
// the matching branch neither returns e nor panics.
func toleratesSentinel(c *Ctx, fn *ssa.Function, e ssa.Value, sentinel string) (bool, string) {
	isSent := func(v ssa.Value) bool {
		if mi, ok := v.(*ssa.MakeInterface); ok {
			v = mi.X
		}
		u, ok := v.(*ssa.UnOp)
		if !ok {
			return false
		}
		g, ok := u.X.(*ssa.Global)
		if !ok {
			return false
		}
		full := g.Pkg.Pkg.Path() + "." + g.Name()
		return full == sentinel || short(g.Pkg.Pkg.Path())+"."+g.Name() == sentinel
	}
	var tests []ssa.Value
	for _, b := range blocksIP(fn) {
		for _, in := range b.Instrs {
			switch x := in.(type) {
			case *ssa.Call:
				if f := x.Call.StaticCallee(); f != nil && f.String() == "errors.Is" && carriesErr(x.Call.Args[0], e, 0) && isSent(x.Call.Args[1]) {
					tests = append(tests, x)
				}
			case *ssa.BinOp:
				if x.Op == token.EQL && (carriesErr(x.X, e, 0) && isSent(x.Y) || carriesErr(x.Y, e, 0) && isSent(x.X)) {
					tests = append(tests, x)
				}
			}
		}
	}
	if len(tests) == 0 {
		return false, "the error is not tested against " + shortSentinel2(sentinel) + " and is returned"
	}
	for _, t := range tests {
		edges, ok := condEdges(t, true)
		if !ok || len(edges) == 0 {
			continue
		}
		bad := Reach(fn, nil, edges, func(in ssa.Instruction) bool {
			switch x := in.(type) {
			case *ssa.Return:
				for _, r := range x.Results {
					if carriesErr(r, e, 0) {
						return true
					}
				}
			case *ssa.Panic:
				return carriesErr(x.X, e, 0)
			}
			return false
		}, redefCut(e))
		if bad == nil {
			return true, "tested against " + shortSentinel2(sentinel) + " at " + c.P.InstrPos(t.(ssa.Instruction)) + "; on that branch the error is neither returned nor fatal"
		}
	}
	return false, "the branch that recognises " + shortSentinel2(sentinel) + " still returns the error or panics"
}

// c07RepeatSupport: the code facts cited by the reviewed C07.repeat rows of
// pathbadger Finalize.
func c07RepeatSupport(c *Ctx) {
	const rule = "C07.repeat"
	const pk = "storage/mkvs/db/pathbadger"
	fn := c.needFn(rule, pk+".(*badgerNodeDB).Finalize")
	if fn == nil {
		return
	}
	var idxDel, pendDel []ssa.Instruction
	for _, f := range withClosures(fn) {
		for _, call := range callsIn(f) {
			if calleeName(call) != bWB+".Delete" {
				continue
			}
			fm := map[string]bool{}
			badgerKeyFormatsOf(allArgs(call)[1], 0, map[ssa.Value]bool{}, fm)
			if fm[pk+".rootUpdatedNodesKeyFmt"] && f == fn {
				idxDel = append(idxDel, call)
			}
			if fm[pk+".pendingNodeKeyFmt"] && f == fn {
				pendDel = append(pendDel, call)
			}
		}
	}
	inst := "pathbadger Finalize index-before-pending"
	if len(idxDel) == 0 || len(pendDel) == 0 {
		c.Fail(rule, inst, c.P.Pos(fn.Pos()), "the deletion of the updated-nodes index records or of the pending nodes was not found")
	} else {
		var bad ssa.Instruction
		for _, p := range pendDel {
			if r := Reach(fn, p, nil, anyOf(idxDel), nil); r != nil {
				bad = r
			}
			for _, i := range idxDel {
				if !sameValue(allArgs(p.(ssa.CallInstruction))[0], allArgs(i.(ssa.CallInstruction))[0], 0) {
					bad = p
				}
			}
		}
		c.Check(bad == nil, rule, inst, c.P.InstrPos(idxDel[0]), "the updated-nodes index records are queued for deletion before the pending nodes, in the same batch", "the pending nodes can be deleted before (or in a different batch than) the updated-nodes index records that drive the copy loop's look-ups: an interrupted Finalize leaves an index naming pending nodes that are gone and can never be repeated")
	}
	// removeRootKeys only collects roots that are not being finalized
	inst = "pathbadger Finalize removed root nodes are the non-finalized ones"
	n := 0
	ok := true
	for _, call := range callsIn(fn) {
		if calleeName(call) != "builtin.append" {
			continue
		}
		fm := map[string]bool{}
		a := allArgs(call)
		if len(a) < 2 {
			continue
		}
		for _, el := range variadicElems(a[1]) {
			badgerKeyFormatsOf(el, 0, map[ssa.Value]bool{}, fm)
		}
		if !fm[pk+".rootNodeKeyFmt"] {
			continue
		}
		n++
		held := false
		for _, h := range heldCondVals(call) {
			// `_, isFinalized := finalizedRoots[rootHash]` (the only map keyed by TypedHash
			// with empty-struct values made in Finalize) … not finalized, however the test is spelled
			nc := normCond(h.Cond, h.Pol)
			if strings.HasPrefix(nc, "!make(map[storage/mkvs/db/api.TypedHash]struct{})[") && strings.HasSuffix(nc, "#1") {
				held = true
			}
		}
		if !held {
			ok = false
			var cs []string
			for cond, pol := range heldConds(call) {
				cs = append(cs, fmt.Sprint(pol)+":"+cond)
			}
			sort.Strings(cs)
			c.Fail(rule, inst, c.P.InstrPos(call), "a root node key is queued for deletion outside the branch where the root is not in finalizedRoots (held: "+strings.Join(cs, "; ")+")")
		}
	}
	if ok {
		c.Check(n > 0, rule, inst, c.P.Pos(fn.Pos()), itoa(n)+" site(s) queue a root node key for deletion, all under !finalizedRoots[rootHash]", "no site queues a root node key for deletion")
	}
}

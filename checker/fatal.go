package main

import (
	"go/token"

	"golang.org/x/tools/go/ssa"
)

// errFlowsToReturn: may the error produced by call flow into the error result
// returned by the enclosing function (directly, wrapped by any error-valued
// call that takes it as an argument, through phis, interface conversions and
// local variables)? Over-approximate (flow-insensitive through allocs).
func errFlowsToReturn(call ssa.CallInstruction) bool {
	v := call.Value()
	if v == nil {
		return false // go / defer
	}
	fn := call.Parent()
	var start []ssa.Value
	if isErrorType(v.Type()) {
		start = append(start, v)
	}
	if refs := v.Referrers(); refs != nil {
		for _, r := range *refs {
			if ex, ok := r.(*ssa.Extract); ok && isErrorType(ex.Type()) {
				start = append(start, ex)
			}
		}
	}
	if len(start) == 0 {
		return false
	}
	seen := map[ssa.Value]bool{}
	work := append([]ssa.Value{}, start...)
	errIdx := errResultIndex(fn)
	for len(work) > 0 {
		x := work[len(work)-1]
		work = work[:len(work)-1]
		if seen[x] {
			continue
		}
		seen[x] = true
		refs := x.Referrers()
		if refs == nil {
			continue
		}
		for _, r := range *refs {
			switch y := r.(type) {
			case *ssa.Return:
				if errIdx >= 0 && errIdx < len(y.Results) && y.Results[errIdx] == x {
					return true
				}
			case *ssa.Phi:
				work = append(work, y)
			case *ssa.MakeInterface:
				work = append(work, y)
			case *ssa.ChangeInterface:
				work = append(work, y)
			case *ssa.Store:
				if y.Val == x {
					// stored into a local (or captured) variable: every load of it
					switch a := y.Addr.(type) {
					case *ssa.Alloc:
						if ar := a.Referrers(); ar != nil {
							for _, l := range *ar {
								if u, ok := l.(*ssa.UnOp); ok && u.Op == token.MUL {
									work = append(work, u)
								}
							}
						}
					case *ssa.IndexAddr: // variadic slice element (fmt.Errorf args)
						if sl := sliceOfIndexAddr(a); sl != nil {
							work = append(work, sl)
						}
					}
				}
			case *ssa.Slice:
				work = append(work, y)
			case ssa.CallInstruction:
				// wrapped: an error-valued call taking the value as an argument
				if cv := y.Value(); cv != nil && isErrorType(cv.Type()) {
					work = append(work, cv)
				}
			}
		}
	}
	return false
}

// sliceOfIndexAddr: for &arr[i] where arr is a local array alloc that is then sliced, return the alloc.
func sliceOfIndexAddr(ia *ssa.IndexAddr) ssa.Value {
	if al, ok := ia.X.(*ssa.Alloc); ok {
		return al
	}
	return nil
}

// reachableBlocks: blocks of fn reachable from entry without crossing cut edges.
func reachableBlocks(fn *ssa.Function, cut *Cut) map[*ssa.BasicBlock]bool {
	out := map[*ssa.BasicBlock]bool{}
	if len(fn.Blocks) == 0 {
		return out
	}
	work := []*ssa.BasicBlock{fn.Blocks[0]}
	for len(work) > 0 {
		b := work[len(work)-1]
		work = work[:len(work)-1]
		if out[b] {
			continue
		}
		out[b] = true
		for i, s := range b.Succs {
			if cut != nil && cut.Edges[Edge{b, i}] {
				continue
			}
			work = append(work, s)
		}
	}
	return out
}

// FatalCone: functions whose returned error propagates, call by call, up to
// the error returned by one of the entries. Message publication is resolved to
// the subscribers of the published kind, each restricted to the arm of its
// kind switch. parent gives the chain.
func (g *CG) FatalCone(entries []*ssa.Function, skip func(*ssa.Function) bool) (cone []*ssa.Function, parent map[*ssa.Function]*cgFrom) {
	w := newWTF(g.p)
	parent = map[*ssa.Function]*cgFrom{}
	type item struct {
		fn   *ssa.Function
		kind string
	}
	seen := map[item]bool{}
	inCone := map[*ssa.Function]bool{}
	var queue []item
	for _, e := range entries {
		if e != nil && !seen[item{e, ""}] {
			seen[item{e, ""}] = true
			queue = append(queue, item{e, ""})
		}
	}
	for len(queue) > 0 {
		it := queue[0]
		queue = queue[1:]
		f := it.fn
		if !inCone[f] {
			inCone[f] = true
			cone = append(cone, f)
		}
		var live map[*ssa.BasicBlock]bool
		if it.kind != "" {
			live = reachableBlocks(f, kindCut(f, it.kind))
		}
		for _, b := range f.Blocks {
			if live != nil && !live[b] {
				continue
			}
			for _, in := range b.Instrs {
				c, ok := in.(ssa.CallInstruction)
				if !ok {
					continue
				}
				if _, isDefer := in.(*ssa.Defer); isDefer {
					continue
				}
				if _, isGo := in.(*ssa.Go); isGo {
					continue
				}
				if !errFlowsToReturn(c) {
					continue
				}
				var tgts []item
				cc := c.Common()
				if cc.IsInvoke() {
					if tfname(cc.Method) == "consensus/cometbft/api.(MessageDispatcher).Publish" {
						kind := publishKind(c)
						subs := w.subs[kind]
						if kind == "" {
							subs = g.impls["consensus/cometbft/api.(MessageSubscriber).ExecuteMessage"]
						}
						for _, s := range subs {
							tgts = append(tgts, item{s, kind})
						}
					} else {
						for _, t := range g.impls[tfname(cc.Method)] {
							tgts = append(tgts, item{t, ""})
						}
					}
				} else if sf := cc.StaticCallee(); sf != nil {
					tgts = []item{{sf, ""}}
					// a function literal passed to the callee runs inside it (e.g. transaction wrappers)
					for _, a := range cc.Args {
						if mc, ok := a.(*ssa.MakeClosure); ok {
							if cf, ok := mc.Fn.(*ssa.Function); ok {
								tgts = append(tgts, item{cf, ""})
							}
						}
					}
				} else if mc, ok := cc.Value.(*ssa.MakeClosure); ok {
					if cf, ok := mc.Fn.(*ssa.Function); ok {
						tgts = []item{{cf, ""}}
					}
				}
				for _, t := range tgts {
					if t.fn == nil {
						continue
					}
					if t.fn.Origin() != nil {
						t.fn = t.fn.Origin()
					}
					if seen[t] || !inModule(fpkgPath(t.fn)) || t.fn.Blocks == nil {
						continue
					}
					if skip != nil && skip(t.fn) {
						continue
					}
					seen[t] = true
					if _, ok := parent[t.fn]; !ok {
						parent[t.fn] = &cgFrom{f, in}
					}
					queue = append(queue, t)
				}
			}
		}
	}
	return
}

#!/usr/bin/env python3
"""claim.py <id> <technique> <text...>: add/replace a claim in bin/manifest_src.json and regenerate MANIFEST.json"""
import json, sys, subprocess
src = json.load(open('/verif/bin/manifest_src.json'))
pid, tech, text = sys.argv[1], sys.argv[2], sys.argv[3]
src['claims'][pid] = {"text": text, "technique": tech}
json.dump(src, open('/verif/bin/manifest_src.json', 'w'), indent=1)
subprocess.check_call(['python3', '/verif/bin/gen_manifest.py'])

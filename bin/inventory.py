#!/usr/bin/env python3
"""inventory.py: prints a markdown table of the rules per property from evidence/obligations/*.tsv (for DESIGN.md R7)."""
import collections, glob, os
print("| property | obligations | ok | reviewed rows | known findings | rules (obligations) |")
print("|---|---|---|---|---|---|")
for f in sorted(glob.glob('/verif/evidence/obligations/C*.tsv')):
    pid = os.path.basename(f)[:-4]
    rules = collections.Counter(); st = collections.Counter()
    for l in open(f):
        p = l.rstrip('\n').split('\t')
        if len(p) < 3 or p[0] == 'info':
            continue
        st[p[0]] += 1; rules[p[1]] += 1
    tot = sum(st.values())
    print(f"| {pid} | {tot} | {st['ok']} | {st['tabled']} | {st['known-finding']} | " + ", ".join(f"{r} ({n})" for r, n in sorted(rules.items())) + " |")

#!/usr/bin/env python3
"""Regenerates /verif/MANIFEST.json from bin/manifest_src.json (claims) + properties.jsonl."""
import json, sys
src = json.load(open('/verif/bin/manifest_src.json'))
props = [json.loads(l) for l in open('/verif/properties.jsonl')]
checks = []
na = []
for p in props:
    pid = p['id']
    if pid in src['claims']:
        cl = src['claims'][pid]
        checks.append({
            "property_id": pid,
            "quick_cmd": f"bin/check {pid} quick",
            "thorough_cmd": f"bin/check {pid} thorough",
            "evidence_file": f"/verif/evidence/{pid}.json",
            "replay_cmd_template": "cat {path}",
            "engine": "ovcheck",
            "level_claimed": {"category": "other", "text": cl['text'], "design_ref": f"DESIGN.md §3 {pid}"},
            "level_note": cl.get('note', src['default_note']),
            "technique": cl['technique'],
        })
    else:
        na.append({"property_id": pid, "reason": src['not_applicable'].get(pid, "static check not built yet in this tree; see DESIGN.md §3/§4")})
m = {
    "version": 1,
    "setup_cmd": "cd /verif/checker && GOTOOLCHAIN=local GOFLAGS=-mod=mod GOPROXY=off GOSUMDB=off PATH=/opt/veriftools/go1.26.8/bin:$PATH go build -o /verif/bin/ovcheck .",
    "hooks": {"guard": "verif", "enable": "none: static analysis needs no instrumentation; /repo is analysed as is (no build tag)",
              "baseline_off_cmd": src['baseline_off_cmd'], "source_commits": [], "add_only": True},
    "engines": [{"name": "ovcheck", "path": "/verif/checker", "serves_properties": sorted(src['claims'].keys()),
                 "kind_free_text": "custom static analyser over go/packages + go/ssa (x/tools v0.50.0, go1.26.8): per-function CFG path rules with success edges, provenance, who-may-call/write, call-graph cones, sibling/field-coverage agreement; reviewed exception tables under /verif/tables"}],
    "checks": checks,
    "not_applicable": na,
    "notes": src['notes'],
}
json.dump(m, open('/verif/MANIFEST.json', 'w'), indent=1)
print("checks:", len(checks), "not_applicable:", len(na))

# sourced by every /verif script: offline Go 1.26.8 toolchain
export GOFLAGS=-mod=mod GOPROXY=off GOSUMDB=off GOTOOLCHAIN=local
export PATH=/opt/veriftools/go1.26.8/bin:$PATH
unset GOWORK

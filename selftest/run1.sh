#!/bin/bash
# run1.sh <prop> <name> [keep]: apply one mutant to a scratch copy, run the check, compare with expectation.
set -u
. /verif/bin/env.sh
S=${VERIF_SCRATCH:-/var/tmp/verif-scratch}
prop=$1; name=$2; keep=${3:-}
d=/verif/selftest/mutants/$prop
if [ "$keep" != keep ]; then
  /verif/selftest/scratch.sh >/dev/null
  ( cd "$S/repo" && patch -p1 -s < "$d/$name.patch" ) || { echo "MUTANT $prop/$name: patch does not apply"; exit 3; }
fi
out=$(mktemp -d /var/tmp/verif-out.XXXXXX)
${OVCHECK:-/verif/bin/ovcheck} -repo "$S/repo" -verif ${OVVERIF:-/verif} -out "$out" -tier quick "$prop" > "$out/log" 2>&1
rc=$?
expect=$(cat "$d/$name.expect")
if [ $rc -eq 1 ] && grep -q "VIOLATION property=$prop" "$out/log" && grep -qF -- "$expect" "$out/log"; then
  echo "MUTANT $prop/$name: CAUGHT ($expect)"; res=0
else
  echo "MUTANT $prop/$name: MISSED (rc=$rc, wanted '$expect')"; grep -E "VIOLATION|UNDECIDED|LOAD FAILED|instance=" "$out/log" | head -8; res=1
fi
rm -rf "$out"
if [ "$keep" != keep ]; then /verif/selftest/scratch.sh >/dev/null; fi
exit $res

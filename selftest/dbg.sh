#!/bin/bash
# dbg.sh <patch> : keep a patched scratch copy at /var/tmp/verif-dbg/repo for interactive ovcheck -dump runs (remove it afterwards).
. /verif/bin/env.sh
S=/var/tmp/verif-dbg; mkdir -p $S; rsync -a --delete --exclude .git /repo/ $S/repo/
[ "$1" = none ] || ( cd $S/repo && patch -p1 -s < "$1" )

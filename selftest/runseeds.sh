#!/bin/bash
# runseeds.sh <prop>: re-apply every kept sub-agent seed of the property to a scratch copy of /repo and
# require that the property's check reports a violation (seeds recorded as MISSED are listed, not run).
set -u
. /verif/bin/env.sh
S=${VERIF_SCRATCH:-/var/tmp/verif-scratch}
prop=$1
fail=0; n=0; missed=0
for d in /verif/seeded/$prop/*/; do
  [ -e "$d/patch.diff" ] || continue
  k=$(basename "$d")
  if python3 -c "import json,sys; sys.exit(0 if json.load(open('$d/meta.json')).get('detected_by','').startswith('MISSED') else 1)"; then
    echo "SEED $prop/$k: recorded as MISSED (not decided by any rule; see meta.json)"; missed=$((missed+1)); continue
  fi
  if python3 -c "import json,sys; sys.exit(0 if json.load(open('$d/meta.json')).get('detected_by','').startswith('NEUTRALISED') else 1)"; then
    echo "SEED $prop/$k: recorded as NEUTRALISED (a later repair of /repo removed the circumstance it needs; see meta.json)"; continue
  fi
  /verif/selftest/scratch.sh >/dev/null
  ( cd "$S/repo" && patch -p1 -s < "$d/patch.diff" ) || { echo "SEED $prop/$k: patch does not apply to the current tree"; fail=$((fail+1)); continue; }
  out=$(mktemp -d /var/tmp/verif-out.XXXXXX)
  ${OVCHECK:-/verif/bin/ovcheck} -repo "$S/repo" -verif ${OVVERIF:-/verif} -out "$out" -tier quick "$prop" > "$out/log" 2>&1; rc=$?
  n=$((n+1))
  if [ $rc -eq 1 ] && grep -q "VIOLATION property=$prop" "$out/log"; then
    echo "SEED $prop/$k: CAUGHT ($(grep -m1 -o 'rule=[^ ]* instance=[^=]*site' "$out/log" | sed 's/ site$//' | cut -c1-160))"
  else
    echo "SEED $prop/$k: NOT REPORTED (rc=$rc)"; fail=$((fail+1))
  fi
  rm -rf "$out"
done
echo "seeds run=$n not-reported=$fail recorded-missed=$missed"
rm -rf "$S"
[ $fail -eq 0 ]

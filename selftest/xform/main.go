// xform: behaviour-preserving syntactic rewrites of Go files (for the benign-variant self-test).
// usage: xform <mode> <file.go>...
//
//	flipcmp   x OP y  →  y OP' x   for comparisons where at most one operand contains a call/receive
//	swapelse  if c {A} else {B}  →  if !(c) {B} else {A}   (else-blocks only, not else-if chains)
//	splitand  if a && b {X}  →  if a { if b {X} }   (no init, no else)
//	splitor   if a || b {X; terminating}  →  if a {X}; if b {X}   (no init, no else, X ends in return/continue/break/panic)
//	renamelocals  every local variable declared inside a function body gets the suffix "Zq" (parameters, results,
//	              receivers and package-level names keep theirs)
//	reversedecls  the top-level function declarations of every file are written in reverse order
//
// Files with a "Code generated" header and _test.go files are skipped. The rewritten file is gofmt-ed.
package main

import (
	"bytes"
	"fmt"
	"go/ast"
	"go/format"
	"go/parser"
	"go/token"
	"os"
	"strings"
)

func hasCall(e ast.Expr) bool {
	found := false
	ast.Inspect(e, func(n ast.Node) bool {
		switch x := n.(type) {
		case *ast.CallExpr:
			found = true
		case *ast.UnaryExpr:
			if x.Op == token.ARROW {
				found = true
			}
		case *ast.FuncLit:
			return false
		}
		return !found
	})
	return found
}

var flip = map[token.Token]token.Token{
	token.EQL: token.EQL, token.NEQ: token.NEQ,
	token.LSS: token.GTR, token.GTR: token.LSS, token.LEQ: token.GEQ, token.GEQ: token.LEQ,
}

func terminating(b *ast.BlockStmt) bool {
	if len(b.List) == 0 {
		return false
	}
	switch s := b.List[len(b.List)-1].(type) {
	case *ast.ReturnStmt:
		return true
	case *ast.BranchStmt:
		return s.Label == nil && (s.Tok == token.CONTINUE || s.Tok == token.BREAK)
	case *ast.ExprStmt:
		if c, ok := s.X.(*ast.CallExpr); ok {
			if id, ok := c.Fun.(*ast.Ident); ok && id.Name == "panic" {
				return true
			}
		}
	}
	return false
}

func declares(b *ast.BlockStmt) bool {
	// A duplicated body must not contain labels or function literals capturing by position; keep it simple.
	bad := false
	ast.Inspect(b, func(n ast.Node) bool {
		switch n.(type) {
		case *ast.LabeledStmt, *ast.FuncLit:
			bad = true
		}
		return !bad
	})
	return bad
}

func strip(e ast.Expr) ast.Expr {
	for {
		p, ok := e.(*ast.ParenExpr)
		if !ok {
			return e
		}
		e = p.X
	}
}

func rewriteList(mode string, list []ast.Stmt, n *int) []ast.Stmt {
	var out []ast.Stmt
	for _, s := range list {
		is, ok := s.(*ast.IfStmt)
		if ok && is.Init == nil && is.Else == nil {
			if be, ok := strip(is.Cond).(*ast.BinaryExpr); ok {
				if mode == "splitand" && be.Op == token.LAND {
					inner := &ast.IfStmt{Cond: be.Y, Body: is.Body}
					out = append(out, &ast.IfStmt{Cond: be.X, Body: &ast.BlockStmt{List: []ast.Stmt{inner}}})
					*n++
					continue
				}
				if mode == "splitor" && be.Op == token.LOR && terminating(is.Body) && !declares(is.Body) {
					out = append(out, &ast.IfStmt{Cond: be.X, Body: is.Body}, &ast.IfStmt{Cond: be.Y, Body: is.Body})
					*n++
					continue
				}
			}
		}
		out = append(out, s)
	}
	return out
}

func main() {
	mode := os.Args[1]
	total := 0
	for _, file := range os.Args[2:] {
		if strings.HasSuffix(file, "_test.go") {
			continue
		}
		src, err := os.ReadFile(file)
		if err != nil {
			panic(err)
		}
		if bytes.Contains(src[:min(len(src), 400)], []byte("Code generated")) {
			continue
		}
		fset := token.NewFileSet()
		f, err := parser.ParseFile(fset, file, src, parser.ParseComments)
		if err != nil {
			panic(err)
		}
		n := 0
		if mode == "renamelocals" {
			n = renameLocals(f)
		}
		if mode == "reversedecls" {
			var funcs []int
			for i, d := range f.Decls {
				if _, ok := d.(*ast.FuncDecl); ok {
					funcs = append(funcs, i)
				}
			}
			for i, j := 0, len(funcs)-1; i < j; i, j = i+1, j-1 {
				f.Decls[funcs[i]], f.Decls[funcs[j]] = f.Decls[funcs[j]], f.Decls[funcs[i]]
				n++
			}
		}
		ast.Inspect(f, func(x ast.Node) bool {
			switch v := x.(type) {
			case *ast.BinaryExpr:
				if mode != "flipcmp" {
					break
				}
				op, ok := flip[v.Op]
				if !ok || (hasCall(v.X) && hasCall(v.Y)) {
					break
				}
				v.X, v.Y, v.Op = v.Y, v.X, op
				n++
			case *ast.IfStmt:
				if mode != "swapelse" || v.Else == nil {
					break
				}
				eb, ok := v.Else.(*ast.BlockStmt)
				if !ok {
					break
				}
				v.Cond = &ast.UnaryExpr{Op: token.NOT, X: &ast.ParenExpr{X: v.Cond}}
				v.Body, v.Else = eb, v.Body
				n++
			case *ast.BlockStmt:
				if mode == "splitand" || mode == "splitor" {
					v.List = rewriteList(mode, v.List, &n)
				}
			case *ast.CaseClause:
				if mode == "splitand" || mode == "splitor" {
					v.Body = rewriteList(mode, v.Body, &n)
				}
			}
			return true
		})
		if n == 0 {
			continue
		}
		// Comments are positioned by offset; after structural rewrites they can land in odd places, so drop the
		// free-floating ones inside function bodies (doc comments stay attached to their declarations).
		if mode == "reversedecls" {
			// positions no longer match the declaration order: keep only the doc comments (attached to their nodes)
			var keep []*ast.CommentGroup
			for _, cg := range f.Comments {
				isDoc := f.Doc == cg
				for _, d := range f.Decls {
					switch x := d.(type) {
					case *ast.FuncDecl:
						isDoc = isDoc || x.Doc == cg
					case *ast.GenDecl:
						isDoc = isDoc || x.Doc == cg
					}
				}
				if cg.Pos() < f.Package || strings.HasPrefix(cg.List[0].Text, "//go:") {
					isDoc = true
				}
				if isDoc {
					keep = append(keep, cg)
				}
			}
			f.Comments = keep
			for _, d := range f.Decls {
				if fd, ok := d.(*ast.FuncDecl); ok && fd.Body != nil {
					stripPos(fd)
				}
			}
		} else if mode != "flipcmp" && mode != "renamelocals" {
			var keep []*ast.CommentGroup
			for _, cg := range f.Comments {
				inBody := false
				for _, d := range f.Decls {
					if fd, ok := d.(*ast.FuncDecl); ok && fd.Body != nil && cg.Pos() > fd.Body.Lbrace && cg.End() < fd.Body.Rbrace {
						inBody = true
					}
				}
				if !inBody || strings.Contains(cg.Text(), "nolint") || strings.HasPrefix(cg.List[0].Text, "//go:") {
					keep = append(keep, cg)
				}
			}
			f.Comments = keep
		}
		var buf bytes.Buffer
		if err := format.Node(&buf, fset, f); err != nil {
			panic(fmt.Sprintf("%s: %v", file, err))
		}
		if err := os.WriteFile(file, buf.Bytes(), 0o644); err != nil {
			panic(err)
		}
		total += n
	}
	fmt.Printf("xform %s: %d rewrites\n", mode, total)
}


// renameLocals renames the variables declared inside function bodies (resolved by the parser's scopes).
func renameLocals(f *ast.File) int {
	objs := map[*ast.Object]bool{}
	for _, d := range f.Decls {
		fd, ok := d.(*ast.FuncDecl)
		if !ok || fd.Body == nil {
			continue
		}
		ast.Inspect(fd.Body, func(x ast.Node) bool {
			id, ok := x.(*ast.Ident)
			if !ok || id.Obj == nil || id.Obj.Kind != ast.Var || id.Name == "_" {
				return true
			}
			switch decl := id.Obj.Decl.(type) {
			case *ast.AssignStmt:
				if decl.Pos() > fd.Body.Lbrace && decl.End() < fd.Body.Rbrace {
					objs[id.Obj] = true
				}
			case *ast.ValueSpec:
				if decl.Pos() > fd.Body.Lbrace && decl.End() < fd.Body.Rbrace {
					objs[id.Obj] = true
				}
			case *ast.RangeStmt:
				objs[id.Obj] = true
			}
			return true
		})
	}
	n := 0
	keys := map[*ast.Ident]bool{}
	ast.Inspect(f, func(x ast.Node) bool {
		if kv, ok := x.(*ast.KeyValueExpr); ok {
			if id, ok := kv.Key.(*ast.Ident); ok {
				keys[id] = true
			}
		}
		return true
	})
	// a composite-literal key that the parser resolved to a local may be a field name or a map key: leave such
	// variables alone altogether
	for id := range keys {
		if id.Obj != nil {
			delete(objs, id.Obj)
		}
	}
	ast.Inspect(f, func(x ast.Node) bool {
		if id, ok := x.(*ast.Ident); ok && id.Obj != nil && objs[id.Obj] {
			id.Name += "Zq"
			n++
		}
		return true
	})
	return n
}

// stripPos is a no-op placeholder: go/format lays the declarations out in slice order regardless of their positions.
func stripPos(*ast.FuncDecl) {}

#!/bin/bash
# runbenign.sh [variant-script ...]: both-ways validation, silent side. Each selftest/benign/*.sh turns a scratch copy of
# /repo into a behaviour-preserving variant (renamed receivers/parameters, split error tests, reworded messages, ...);
# the variant must still build and every property's check must stay silent on it. A report here is a false alarm of
# the checker (a rule keyed on something that is not behaviour) and is printed as such; the exit status only speaks
# about the checker.
set -u
. /verif/bin/env.sh
S=${VERIF_SCRATCH:-/var/tmp/verif-scratch-benign}
[ -x /verif/bin/rename ] || ( cd /verif/selftest/rename && GOFLAGS= go build -o /verif/bin/rename main.go )
[ -x /verif/bin/xform ] || ( cd /verif/selftest/xform && GOFLAGS= go build -o /verif/bin/xform main.go )
vars=${@:-$(ls /verif/selftest/benign/*.sh)}
bad=0
for v in $vars; do
  mkdir -p "$S"; rsync -a --delete --exclude .git ${REPO_SRC:-/repo}/ "$S/repo/"
  "$v" "$S/repo" >/dev/null 2>&1
  if ! ( cd "$S/repo/go" && go build ./... ) >/dev/null 2>&1; then echo "BENIGN $(basename $v): variant does not build (variant script is stale)"; bad=1; continue; fi
  out=$(mktemp -d /var/tmp/verif-out.XXXXXX)
  n=0
  for i in $(seq -w 1 20); do
    ${OVCHECK:-/verif/bin/ovcheck} -repo "$S/repo" -verif ${OVVERIF:-/verif} -out "$out" -tier quick C$i > "$out/C$i.log" 2>&1; rc=$?
    if [ $rc -ne 0 ]; then n=$((n+1)); echo "BENIGN $(basename $v): C$i rc=$rc (false alarm)"; grep -A1 -E "^VIOLATION|^UNDECIDED|LOAD FAILED" "$out/C$i.log" | cut -c1-300 | head -6; fi
  done
  [ $n -eq 0 ] && echo "BENIGN $(basename $v): all 20 checks silent" || bad=1
  rm -rf "$out"
done
rm -rf "$S"
exit $bad

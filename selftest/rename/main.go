// rename: behaviour-preserving renaming of a receiver/parameter in the functions of one file (for the benign-variant
// self-test). usage: rename <file.go> <func-name-regexp> <old> <new>
package main

import (
	"fmt"
	"go/ast"
	"go/format"
	"go/parser"
	"go/token"
	"os"
	"regexp"
)

func main() {
	file, re, old, nw := os.Args[1], regexp.MustCompile(os.Args[2]), os.Args[3], os.Args[4]
	fset := token.NewFileSet()
	f, err := parser.ParseFile(fset, file, nil, parser.ParseComments)
	if err != nil {
		panic(err)
	}
	n := 0
	for _, d := range f.Decls {
		fd, ok := d.(*ast.FuncDecl)
		if !ok || !re.MatchString(fd.Name.Name) || fd.Body == nil {
			continue
		}
		var objs []*ast.Object
		collect := func(fl *ast.FieldList) {
			if fl == nil {
				return
			}
			for _, fld := range fl.List {
				for _, id := range fld.Names {
					if id.Name == old && id.Obj != nil {
						objs = append(objs, id.Obj)
					}
				}
			}
		}
		collect(fd.Recv)
		collect(fd.Type.Params)
		if len(objs) == 0 {
			continue
		}
		clash := false
		ast.Inspect(fd, func(x ast.Node) bool {
			if id, ok := x.(*ast.Ident); ok && id.Name == nw {
				clash = true
			}
			return true
		})
		if clash {
			continue
		}
		keys := map[*ast.Ident]bool{}
		ast.Inspect(fd, func(x ast.Node) bool {
			if kv, ok := x.(*ast.KeyValueExpr); ok {
				if id, ok := kv.Key.(*ast.Ident); ok {
					keys[id] = true // struct-literal field names are not uses of the parameter
				}
			}
			return true
		})
		ast.Inspect(fd, func(x ast.Node) bool {
			if id, ok := x.(*ast.Ident); ok && id.Name == old && !keys[id] {
				for _, o := range objs {
					if id.Obj == o {
						id.Name = nw
						n++
					}
				}
			}
			return true
		})
	}
	out, err := os.Create(file)
	if err != nil {
		panic(err)
	}
	defer out.Close()
	if err := format.Node(out, fset, f); err != nil {
		panic(err)
	}
	fmt.Fprintf(os.Stderr, "%s: %d identifiers renamed\n", file, n)
}

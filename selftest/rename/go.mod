module verif/rename

go 1.26.8

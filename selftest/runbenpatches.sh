#!/bin/bash
# runbenpatches.sh <dir>: run all twenty checks on every <dir>/<k>/patch.diff (behaviour-preserving changes written by
# independent sub-agents); anything reported is a false alarm to be triaged. Three at a time. Results go to a scratch
# directory under /var/tmp (removed afterwards), never into <dir>.
d=$1
out=$(mktemp -d /var/tmp/verif-ben.XXXXXX)
for k in $(ls -d $d/*/ | xargs -n1 basename); do echo $k; done | xargs -P 3 -I{} sh -c "/verif/selftest/runpatch.sh $d/{}/patch.diff > $out/{}.txt 2>&1"
for k in $(ls -d $d/*/ | xargs -n1 basename | sort -V); do echo "== $d/$k/"; cat $out/$k.txt; done
rm -rf "$out"

#!/bin/bash
# runbenpatches.sh <dir>: run all twenty checks on every <dir>/<k>/patch.diff (behaviour-preserving changes written by
# independent sub-agents); anything reported is a false alarm to be triaged. Three at a time.
d=$1
ls -d $d/*/ | xargs -P 3 -I{} sh -c '/verif/selftest/runpatch.sh {}patch.diff > {}result.txt 2>&1'
for k in $(ls -d $d/*/ | sort -V); do echo "== $k"; cat $k/result.txt; done

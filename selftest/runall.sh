#!/bin/bash
# runall.sh [prop...]: run every stored mutant of the given properties (default all); one scratch copy at a time.
set -u
cd /verif/selftest/mutants
props=${@:-$(ls)}
fail=0; n=0
for p in $props; do
  for f in $p/*.patch; do
    [ -e "$f" ] || continue
    name=$(basename "$f" .patch)
    /verif/selftest/run1.sh "$p" "$name" || fail=$((fail+1))
    n=$((n+1))
  done
done
echo "mutants run=$n missed=$fail"
rm -rf ${VERIF_SCRATCH:-/var/tmp/verif-scratch}
[ $fail -eq 0 ]

#!/bin/bash
# mk.sh <prop> <name> <expected-substring-in-violation-report>
# Saves the difference between the scratch copy and /repo as a mutant patch,
# checks that it still compiles (type-checks in the loader) and that the
# property's check reports the expected instance; then resets the scratch copy.
set -u
S=${VERIF_SCRATCH:-/var/tmp/verif-scratch}
prop=$1; name=$2; expect=$3
d=/verif/selftest/mutants/$prop
mkdir -p "$d"
( cd "$S/repo" && diff -ruN --exclude .git /repo/go go | sed -e "s#^--- /repo/#--- a/#" -e "s#^+++ go/#+++ b/go/#" ) > "$d/$name.patch"
if [ ! -s "$d/$name.patch" ]; then echo "empty patch"; exit 1; fi
echo "$expect" > "$d/$name.expect"
/verif/selftest/run1.sh "$prop" "$name" keep
rc=$?
/verif/selftest/scratch.sh >/dev/null
exit $rc

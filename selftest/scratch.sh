#!/bin/bash
# Create (or reset) a scratch copy of /repo's working tree outside /repo and /verif.
S=${VERIF_SCRATCH:-/var/tmp/verif-scratch}
mkdir -p "$S"
rsync -a --delete --exclude .git ${REPO_SRC:-/repo}/ "$S/repo/"
echo "$S/repo"

#!/bin/bash
# runpatch.sh <patch.diff> [props...]: apply a patch to a scratch copy of /repo and run the given (default: all twenty)
# quick checks on it in one analysis process. Prints one summary line per property and every VIOLATION/UNDECIDED.
# Used for the silent side (behaviour-preserving patches from independent sub-agents must raise nothing) and for seeds.
set -u
. /verif/bin/env.sh
patch=$1; shift
props=${@:-$(seq -f 'C%02g' 1 20)}
S=${VERIF_SCRATCH:-/var/tmp/verif-scratch-patch-$$}
mkdir -p "$S"; rsync -a --delete --exclude .git ${REPO_SRC:-/repo}/ "$S/repo/"
if [ "$patch" != none ]; then ( cd "$S/repo" && patch -p1 -s < "$patch" ) || { echo "patch failed"; rm -rf "$S"; exit 3; }; fi
out=$(mktemp -d /var/tmp/verif-out.XXXXXX)
${OVCHECK:-/verif/bin/ovcheck} -repo "$S/repo" -verif ${OVVERIF:-/verif} -out "$out" -tier quick $props > "$out/log" 2>&1; rc=$?
echo "RUNPATCH $patch rc=$rc"
grep -E "^property=" "$out/log" | grep -v "violations=0 undecided=0" | cut -c1-160
grep -A2 -E "^VIOLATION|^UNDECIDED|LOAD FAILED" "$out/log" | cut -c1-500 | head -60
rm -rf "$out" "$S"
exit $rc
